#!/bin/bash
# seedcheck.sh <seed-id> <funcs>: run govc verify for some functions on a scratch copy of /repo with the seeded patch applied
id=$1; funcs=$2
d=$(mktemp -d /tmp/seedchk.XXXXXX); cp -r /repo/. $d/; rm -rf $d/.git
(cd $d && patch -p1 -s < /verif/seeded/$id/patch.diff) || { echo "$id: patch failed"; rm -rf $d; exit 1; }
/verif/bin/govc verify -repo $d -funcs "$funcs" 2>&1 | grep -v "^        " | cut -c1-170
rm -rf $d
