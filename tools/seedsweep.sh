#!/bin/bash
# seedsweep.sh [seed...]: apply each seeded change to /repo, run the quick check of the property it breaks
# (and of any property listed in meta.json "also"), undo it straight afterwards. Prints one line per seed.
cd /verif
seeds=${@:-$(ls seeded | grep -E '^C[0-9]+-[A-Z]$')}
for s in $seeds; do
  prop=${s%-*}
  if ! git -C /repo diff --quiet; then echo "repo dirty, abort"; exit 2; fi
  git -C /repo apply /verif/seeded/$s/patch.diff || { echo "$s: patch does not apply"; continue; }
  props="$prop $(python3 -c "import json,sys; print(' '.join(json.load(open('seeded/$s/meta.json')).get('also_check',[])))" 2>/dev/null)"
  res=""
  for p in $props; do
    if grep -q "\"property_id\": \"$p\"" MANIFEST.json; then
      out=$(timeout 1500 bin/check $p 2>&1); rc=$?
      nv=$(echo "$out" | grep -c '^VIOLATION')
      first=$(echo "$out" | grep -m1 '^VIOLATION' | sed 's/.*replays\/[^/]*\///; s/\.json.*//')
      res="$res $p:rc=$rc,violations=$nv,first=$first"
    else
      res="$res $p:not-claimed"
    fi
  done
  git -C /repo checkout -- . ; git -C /repo clean -fdq -- . >/dev/null 2>&1
  # the evidence files written while the seeded change was applied describe the changed tree: restore the committed ones
  git -C /verif checkout -- evidence >/dev/null 2>&1
  echo "$s:$res"
done
