#!/bin/bash
# mut.sh <file-relative-to-repo> <python-expr old=>new as two args> <funcs>: verify functions on a mutated scratch copy
f=$1; old=$2; new=$3; funcs=$4
d=$(mktemp -d /tmp/mut.XXXXXX); cp -r /repo/. $d/; 
python3 - "$d/$f" "$old" "$new" <<'PY'
import sys
p,old,new=sys.argv[1:4]
s=open(p).read()
if s.count(old)<1: print("PATTERN NOT FOUND"); sys.exit(1)
open(p,'w').write(s.replace(old,new,1))
PY
(cd $d && GOFLAGS=-mod=mod GOPROXY=off GOSUMDB=off GOTOOLCHAIN=local go build ./... ) || echo "DOES NOT COMPILE"
/verif/bin/govc verify -repo $d -funcs "$funcs" | grep -v "^        " | cut -c1-160
rm -rf $d
