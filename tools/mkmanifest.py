#!/usr/bin/env python3
"""Regenerates /verif/MANIFEST.json from the table below (kept in one place so that the
manifest, properties.map.json and DESIGN.md stay consistent)."""
import json, subprocess
TECH = "contract-based deductive verification: weakest-precondition style symbolic execution of the real go/ssa against //@ contracts, obligations discharged by z3 4.8.12 / z3 5.1.0 / cvc5 1.0"
CLAIMED = {
 "C09": ("Every scanner function (next, ident, quotedIdent, numberOrDot, numberExponent, string) and the Scan loop are proved against contracts written from the property statement: tokens are in range, pairwise ordered and disjoint, the gaps between them hold only white space and // comments (inductive gap predicate), every token has the kind, span and longest-lexeme shape its class prescribes (tokenOK), one error token per unrecognisable piece; plus index/slice/nil safety and termination of every loop. Unbounded: loop invariants, no input-length bound.",
         "Trusted: go/ssa lowering, the govc VC generator, solver soundness, assumed contracts of utf8.DecodeRuneInString / unicode.IsSpace / strings.ReplaceAll / strings.TrimLeft / strconv (libPrelude). Undecided clauses (decoded value of strings, numeric valuation, rescan idempotence, BasicLit accessors) are listed in the evidence."),
 "C10": ("Every obligation generated from the real SSA of the span functions and the thirty Span() methods is discharged for all inputs: Span() of every node type equals the hull of ALL its span-bearing parts (specification generated from go/types on every run, so an omitted field is refuted), unionSpans/nodeSliceSpan by loop invariants, termination of the mutually recursive Span cycle by a height measure, no nil dereference under spanSafe.",
         "Trusted: go/ssa lowering, govc, solver soundness, mathematical integers. The recorded-span clause (parser productions) and line:column arithmetic are listed as undecided in the evidence."),
 "C15": ("SplitStatements is proved, by a loop invariant over the token sequence Scan returns, to produce exactly one more piece than there are semicolon tokens and pieces whose join with ';' is the source byte for byte (joinSemi), with every slice in range; the cut points are the spans of TokenSemi tokens, which by Scan's verified token-class contract are single ';' bytes outside strings, quoted identifiers and comments.",
         "Trusted: as C09, plus sequence-theory facts about cat/slice and the determinism argument that lets scanOf(source) name Scan's result. The piece-in-isolation (locality) clause and the Parse correspondence are listed as undecided."),
 "C11": ("Walk is proved, for every tree satisfying the parser's well-formedness (walkWF) and for an arbitrary visitor vis(history,node), to call the visitor with exactly the pre-order sequence Pre(n) that is generated from the traversal table of all node types (explicit-stack loop invariant PreS(stack,trace)==Pre(root), eleven inner push-loop invariants), never with a nil node (pre/visit), never reaching the panic in the default branch, and to terminate (stackSize measure). The table is cross-checked against go/types on every run so a new node-typed field cannot be skipped silently.",
         "Trusted: go/ssa lowering, govc, solvers; walkWF of the input tree is a precondition (owed by the parser); sibling order is fixed to the documented depth-first order. Two genuine defects found by these obligations (ParenExpr panic, nil Name of an unnamed extend column) were repaired by fix: commits."),

 "C01": ("The three expression writers, the ten built-in rewrites and the two quoting loops are proved, for every well-formed expression tree, scope and mode, to emit exactly the text the rendering specification W (Appendix A: same operators, same operands, same order; coalesce for ==/!=, lower() for =~/!~, IN, indexing, signs, documented built-ins, other calls passed through; parentheses stripped and re-inserted) prescribes: strongest postcondition out(sb)==W(...) on every success path, loop invariants in continuation form, structural recursion with a height measure (so parentheses cannot affect termination).",
         "W is the oracle (written from the property statement); that W's parenthesisation is valid under the dialect's precedence is argued in DESIGN.md and was repaired where refuted (F5-F7), but is not yet a discharged lemma. Trusted: go/ssa, govc, solvers, hasJoinTerms contract, sync.Once."),
 "C02": ("splitQueries is proved equal to the plan specification Split (Appendix B) by a continuation-form loop invariant over the heap view of the subquery objects (when ORDER BY / LIMIT attach, when a new subquery starts, top = sort+take on one subquery, chaining through the previous subquery or the table, fresh pairwise-distinct objects, callers' objects untouched), and (*subquery).write is proved equal to the SELECT text specification WS (clause order SELECT..FROM..WHERE..GROUP BY..ORDER BY..LIMIT, columns in order with aliases, group keys before aggregates, ASC/DESC and NULLS FIRST/LAST from the term flags).",
         "Split/WS are the oracle; the relational reading of the emitted SQL (dialect clause order) is assumption A7(ii), not proved. sortTerm defaults are parser facts (not yet under contract)."),
 "C03": ("The join case of Split is part of the splitQueries proof: the right-hand pipeline is the recursive call on op.Right with its own chain start (proved via the callee's contract, height measure), the join source text equals joinSrc (DISTINCT wrapper iff innerunique/default, LEFT JOIN iff leftouter, left side = pipeline so far or the table, right side = last subquery of the right plan, ON = W in join mode of the AND-ed, rewritten conditions); buildJoinCondition / rewriteSimpleJoinCondition are proved equal to JoinCond / rewriteCond (bare k => $left.k == $right.k).",
         "Oracle: joinSrc/JoinCond. hasJoinTerms is an assumed contract. Relational meaning of JOIN is the dialect's (A7)."),
 "C04": ("quoteIdentifier and quoteSQLString are proved equal to the escaping specification EscQ (double every quote character, wrap in quotes) by loop invariants; every writer is proved equal to an oracle (W, WS, joinSrc, StmtOut) in which user text occurs only as QI(name), QS(value), number text or a scope value, so the token structure of the output is a function of the tree shape alone. The render operator, which wrote raw text (F8), was repaired after the obligation failed.",
         "The dialect-side decoding lemma (incl. ClickHouse backslash escapes) is not discharged; lexer-side value clauses are under C09."),
 "C05": ("Compile is proved to emit exactly Out.str(StmtOut(plan)) = [WITH n1 AS (S1), ...] Sk ; with plan = Split(operators): CTE loop invariant, last subquery as the final select, generated names sqn(index) (injective), every subquery reads the previous one of its pipeline or the table, at least one subquery; all internal placeholder branches (NULL /* unhandled ... */) are proved unreachable for well-formed trees (explicit unreachable obligations).",
         "StmtOut is the oracle; lexical closure/bracket balance of the text are not separate lemmas. Parse's well-formedness post is assumed."),
 "C06": ("Compile's statement loop is proved to build exactly the scope SD/SV: parameters first (copy loop over the map, caller's map untouched), then every let written before the query in order (later shadows earlier and parameters), lets after the query ignored; each let value is Out.str(WMP(...)) evaluated in let mode in the scope so far; the scope reaches every expression context, including join conditions (F10, repaired); identifier resolution (unquoted single name -> scope, then built-in constants; quoted/qualified never substituted) is part of W.",
         "SD/SV/W are the oracle. The sign-adjacency clause for let values and the irrelevance lemma are undecided."),
 "C12": ("All safety obligations (index and slice bounds, nil dereference, failed type assertion, reachable panic, division, nil-map write), all loop variants and recursion measures, all frame conditions and vacuity guards of every function under contract in the lexer, the span functions, Walk and the compiler are discharged for all inputs.",
         "Functions not yet under contract (parser productions, hasJoinTerms, cmd/pql) are listed in the evidence; Parse's post is an assumption. No cost model: termination only."),
 "C13": ("Compile is proved to return (non-empty text, nil) or (\"\", non-nil error) on every path (typed-nil traps included: errors are datatype values); each built-in rewrite is proved to fail whenever the documented argument count is violated; $left/$right outside join mode and the let-mode identifier rules are part of the verified writeExpression (errors on those paths, W on the others).",
         "The converse (every rule-abiding program compiles) and the parser-side rules are undecided (listed in evidence)."),
}
NOT_YET = {}
props = [json.loads(l) for l in open('/verif/properties.jsonl')]
pm = json.load(open('/verif/properties.map.json'))
checks = []
na = []
for p in props:
    i = p['id']
    if i in CLAIMED and i in pm:
        t, n = CLAIMED[i]
        checks.append({"property_id": i, "quick_cmd": f"bin/check {i} --tier quick", "thorough_cmd": f"bin/check {i} --tier thorough",
                       "evidence_file": f"/verif/evidence/{i}.json", "replay_cmd_template": "bin/check --replay {path}", "engine": "govc",
                       "level_claimed": {"category": "proof", "text": t, "design_ref": f"DESIGN.md section 4 {i}"},
                       "level_note": n, "technique": TECH})
    else:
        na.append({"property_id": i, "reason": NOT_YET.get(i, "no contract set for this property has been committed yet (contract-based verification is applicable in principle; see DESIGN.md section 4 and the build order in section 7)")})
commits = subprocess.run(['git','-C','/repo','log','--format=%H %s'],capture_output=True,text=True).stdout.strip().split('\n')
hooks = [c.split()[0] for c in commits if ' verif:' in ' '+c]
m = {"version": 1,
     "setup_cmd": "cd /verif/govc && GOFLAGS=-mod=mod GOPROXY=off GOSUMDB=off GOTOOLCHAIN=local go build -o /verif/bin/govc .",
     "hooks": {"guard": "verif", "enable": "contracts are comment-only Go files (contracts_verif.go) behind //go:build verif; govc reads them with its own parser, nothing in /repo is compiled with the tag",
               "baseline_off_cmd": "cd /repo && go test -json -vet=off -count=1 -timeout 25m ./...", "source_commits": hooks, "add_only": True},
     "engines": [{"name": "govc", "path": "/verif/govc", "serves_properties": [c['property_id'] for c in checks],
                  "kind_free_text": "contract-based deductive verifier for Go written for this task (go/ssa symbolic execution, //@ contracts, SMT back ends)"}],
     "checks": checks,
     "notes": "fix: commits in /repo repair genuine defects first reported by a check (see known_findings.json and DESIGN.md section 5)",
     "not_applicable": na}
json.dump(m, open('/verif/MANIFEST.json','w'), indent=1)
print("claimed:", [c['property_id'] for c in checks], "hooks:", len(hooks))
