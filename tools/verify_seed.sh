#!/bin/bash
# verify_seed.sh <seed-id>: confirm a seeded change in a scratch worktree of /repo HEAD:
#  (a) clean + demo passes, (b) patch + existing suite passes, (c) patch + demo fails.
export GOFLAGS=-mod=mod GOPROXY=off GOSUMDB=off GOTOOLCHAIN=local
id=$1; d=/verif/seeded/$id; wt=$(mktemp -d /tmp/vseed.XXXXXX); rmdir $wt
git -C /repo worktree add -q --detach $wt HEAD || exit 2
trap 'git -C /repo worktree remove --force '$wt' >/dev/null 2>&1' EXIT
pkg=$(grep -m1 '^package ' $d/demo_test.go | awk '{print $2}')
case $pkg in pql) sub=. ;; parser) sub=parser ;; main) sub=cmd/pql ;; *) echo "unknown package $pkg"; exit 2;; esac
cd $wt
cp $d/demo_test.go $sub/zz_demo_test.go
a=$(go test -vet=off -count=1 -timeout 120s -run TestSeedDemo ./$sub 2>&1 | tail -1)
rm $sub/zz_demo_test.go
git apply $d/patch.diff || { echo "$id: patch does not apply"; exit 1; }
b=$(go test -vet=off -count=1 -timeout 300s ./... 2>&1 | grep -c -E '^(FAIL|---)')
cp $d/demo_test.go $sub/zz_demo_test.go
c=$(go test -vet=off -count=1 -timeout 120s -run TestSeedDemo ./$sub 2>&1 | tail -1)
echo "$id: clean+demo=[$a] patched-suite-failures=$b patched+demo=[$c]"
