#!/bin/bash
# ingest_seed.sh <Cxx> <suffix> "<change summary>" "<needs to manifest>": take a sub-agent's deliverables from /tmp/seedout-<Cxx>,
# store them as /verif/seeded/<Cxx>-<suffix>, confirm them (verify_seed.sh), remove the scratch worktree.
id=$1; suf=$2; what=$3; needs=$4
src=/tmp/seedout-$id; dst=/verif/seeded/$id-$suf
[ -f $src/patch.diff ] && [ -f $src/demo_test.go ] || { echo "deliverables missing in $src"; exit 1; }
mkdir -p $dst && cp $src/patch.diff $src/demo_test.go $dst/ && cp $src/notes.md $dst/ 2>/dev/null
pkg=$(grep -m1 '^package ' $dst/demo_test.go | awk '{print $2}')
case $pkg in pql) sub=./ ;; parser) sub=parser/ ;; main) sub=cmd/pql/ ;; esac
res=$(/verif/tools/verify_seed.sh $id-$suf 2>&1 | tail -1)
echo "$res" | tee -a /verif/seeded/VERIFY.log
python3 - "$id" "$suf" "$what" "$needs" "$sub" "$res" <<'PY'
import json,sys
id,suf,what,needs,sub,res=sys.argv[1:7]
m={"seed":f"{id}-{suf}","property":id,"change":what,"needs_to_manifest":needs,
 "demo":{"file":"demo_test.go","copy_to":sub,"test":"TestSeedDemo"},
 "produced_by":"independent sub-agent given only the property text and a scratch worktree of /repo HEAD without the contract files (second round)",
 "confirmed_by_me":f"tools/verify_seed.sh {id}-{suf}: {res}","rebased":False}
json.dump(m,open(f"/verif/seeded/{id}-{suf}/meta.json","w"),indent=1)
PY
git -C /repo worktree remove --force /tmp/seedwt-$id 2>/dev/null; rm -rf /tmp/seedout-$id /tmp/prop-$id.txt
