//go:build verif

// Contracts for package pql, read by /verif/govc (comment-only file: with the
// build tag off it is not compiled, with it on it declares nothing).
// Syntax: see /verif/DESIGN.md section 2.2. The specification functions
// (W, WMP, QI, QS, ...) live in /verif/spec/expr.smt2.

package pql

// ---------------------------------------------------------------- quoting

//@ func pql.quoteIdentifier
//@   use expr dialect
//@   requires sb != nil
//@   ensures @text: out(sb) == QI(name, old(out(sb)))
//@   ensures @nobackslash: nbs(out(sb)) == nbs(old(out(sb)))
//@   assigns out(sb)
//@ loop 1
//@   invariant -1 <= rangeindex && rangeindex < len(name)
//@   invariant EscQ(name, 34, rangeindex + 1, out(sb)) == EscQ(name, 34, 0, OByte(old(out(sb)), 34))
//@   invariant @nobackslash: nbs(out(sb)) == nbs(old(out(sb)))
//@   decreases len(name) - rangeindex

//@ func pql.quoteSQLString
//@   use expr dialect
//@   requires sb != nil
//@   ensures @text: out(sb) == QS(s, old(out(sb)))
//@   ensures @nobackslash: nbs(out(sb)) == nbs(old(out(sb)))
//@   assigns out(sb)
//@ loop 1
//@   invariant -1 <= rangeindex && rangeindex < len(s)
//@   invariant EscQ(s, 39, rangeindex + 1, out(sb)) == EscQ(s, 39, 0, OByte(old(out(sb)), 39))
//@   invariant @nobackslash: nbs(out(sb)) == nbs(old(out(sb)))
//@   decreases len(s) - rangeindex

// ---------------------------------------------------------------- expressions

//@ func pql.hasJoinTerms
//@   use expr
//@   trusted composition assumed: the results are the fold, over the visit sequence of Walk (verified, C11), of the visitor closure hasJoinTerms$1 (verified below: it sets left/right exactly at identifiers named $left/$right and always continues); hasLeft/hasRight name the two results
//@   ensures left == hasLeft(x) && right == hasRight(x)

//@ func pql.hasJoinTerms$1
//@   use expr walk
//@   keywords $left $right
//@   requires !isNilNode(n)
//@   ensures @continue: result
//@   ensures @left: left == (old(left) || identNamed(n, "$left"))
//@   ensures @right: right == (old(right) || identNamed(n, "$right"))

//@ func pql.writeExpression
//@   use expr fail
//@   requires ctx != nil && sb != nil && exprWF(x)
//@   ensures @text: result == nil ==> out(sb) == W(mapdom(ctx.scope), mapval(ctx.scope), ctx.mode, x, old(out(sb)))
//@   ensures @fails: (result != nil) == Wfail(mapdom(ctx.scope), ctx.mode, x)
//@   assigns out(sb)
//@   decreases height(x), 1
//@ loop 1
//@   invariant Wfail(mapdom(ctx.scope), ctx.mode, x) == Wfail(mapdom(ctx.scope), ctx.mode, old(x))
//@   invariant exprWF(x) && strip(x) == strip(old(x)) && height(x) <= height(old(x))
//@   invariant forallS(o, "Out", W(mapdom(ctx.scope), mapval(ctx.scope), ctx.mode, x, o) == W(mapdom(ctx.scope), mapval(ctx.scope), ctx.mode, old(x), o))
//@   decreases height(x)
//@ loop 2
//@   invariant ctx.mode == 1 || !aliasL(x_QualifiedIdent.Parts, rangeindex + 1)
//@   invariant -1 <= rangeindex && rangeindex < len(x_QualifiedIdent.Parts)
//@   invariant Wparts(x_QualifiedIdent.Parts, rangeindex + 1, out(sb)) == Wparts(x_QualifiedIdent.Parts, 0, old(out(sb)))
//@   decreases len(x_QualifiedIdent.Parts) - rangeindex
//@ loop 3
//@   invariant !Wfail(mapdom(ctx.scope), ctx.mode, x_InExpr.X) && !WfailL(mapdom(ctx.scope), ctx.mode, x_InExpr.Vals, rangeindex + 1)
//@   invariant -1 <= rangeindex && rangeindex < len(x_InExpr.Vals)
//@   invariant WMPlist(mapdom(ctx.scope), mapval(ctx.scope), ctx.mode, x_InExpr.Vals, rangeindex + 1, out(sb)) == WMPlist(mapdom(ctx.scope), mapval(ctx.scope), ctx.mode, x_InExpr.Vals, 0, olit(WMP(mapdom(ctx.scope), mapval(ctx.scope), ctx.mode, x_InExpr.X, old(out(sb))), " IN ("))
//@   decreases len(x_InExpr.Vals) - rangeindex
//@ loop 4
//@   invariant !WfailL(mapdom(ctx.scope), ctx.mode, x_CallExpr.Args, rangeindex + 1)
//@   invariant -1 <= rangeindex && rangeindex < len(x_CallExpr.Args)
//@   invariant Wlist(mapdom(ctx.scope), mapval(ctx.scope), ctx.mode, x_CallExpr.Args, rangeindex + 1, out(sb)) == Wlist(mapdom(ctx.scope), mapval(ctx.scope), ctx.mode, x_CallExpr.Args, 0, OByte(OStr(old(out(sb)), x_CallExpr.Func.Name), 40))
//@   decreases len(x_CallExpr.Args) - rangeindex

//@ func pql.writeExpressionMaybeParen
//@   use expr fail
//@   requires ctx != nil && sb != nil && exprWF(x)
//@   ensures @text: result == nil ==> out(sb) == WMP(mapdom(ctx.scope), mapval(ctx.scope), ctx.mode, x, old(out(sb)))
//@   ensures @fails: (result != nil) == Wfail(mapdom(ctx.scope), ctx.mode, x)
//@   assigns out(sb)
//@   decreases height(x), 2
//@ loop 1
//@   invariant Wfail(mapdom(ctx.scope), ctx.mode, x) == Wfail(mapdom(ctx.scope), ctx.mode, old(x))
//@   invariant exprWF(x) && strip(x) == strip(old(x)) && height(x) <= height(old(x))
//@   decreases height(x)

// ---------------------------------------------------------------- built-in function rewrites
// common contract CW: under x.Func.Name == <key> the function writes W(x); it fails exactly on a wrong argument count (C13)

//@ func pql.writeNotFunction
//@   use expr fail
//@   requires ctx != nil && sb != nil && typeis(x, "CallExpr") && exprWF(x) && x.Func.Name == "not"
//@   ensures @text: result == nil ==> out(sb) == W(mapdom(ctx.scope), mapval(ctx.scope), ctx.mode, x, old(out(sb)))
//@   ensures @arity: !arityOK(x.Func.Name, len(x.Args)) ==> result != nil
//@   ensures @fails: (result != nil) == Wfail(mapdom(ctx.scope), ctx.mode, x)
//@   assigns out(sb)
//@   decreases height(x), 0

//@ func pql.writeNowFunction
//@   use expr fail
//@   requires ctx != nil && sb != nil && typeis(x, "CallExpr") && exprWF(x) && x.Func.Name == "now"
//@   ensures @text: result == nil ==> out(sb) == W(mapdom(ctx.scope), mapval(ctx.scope), ctx.mode, x, old(out(sb)))
//@   ensures @arity: !arityOK(x.Func.Name, len(x.Args)) ==> result != nil
//@   ensures @fails: (result != nil) == Wfail(mapdom(ctx.scope), ctx.mode, x)
//@   assigns out(sb)
//@   decreases height(x), 0

//@ func pql.writeIsNullFunction
//@   use expr fail
//@   requires ctx != nil && sb != nil && typeis(x, "CallExpr") && exprWF(x) && x.Func.Name == "isnull"
//@   ensures @text: result == nil ==> out(sb) == W(mapdom(ctx.scope), mapval(ctx.scope), ctx.mode, x, old(out(sb)))
//@   ensures @arity: !arityOK(x.Func.Name, len(x.Args)) ==> result != nil
//@   ensures @fails: (result != nil) == Wfail(mapdom(ctx.scope), ctx.mode, x)
//@   assigns out(sb)
//@   decreases height(x), 0

//@ func pql.writeIsNotNullFunction
//@   use expr fail
//@   requires ctx != nil && sb != nil && typeis(x, "CallExpr") && exprWF(x) && x.Func.Name == "isnotnull"
//@   ensures @text: result == nil ==> out(sb) == W(mapdom(ctx.scope), mapval(ctx.scope), ctx.mode, x, old(out(sb)))
//@   ensures @arity: !arityOK(x.Func.Name, len(x.Args)) ==> result != nil
//@   ensures @fails: (result != nil) == Wfail(mapdom(ctx.scope), ctx.mode, x)
//@   assigns out(sb)
//@   decreases height(x), 0

//@ func pql.writeStrcatFunction
//@   use expr fail
//@   requires ctx != nil && sb != nil && typeis(x, "CallExpr") && exprWF(x) && x.Func.Name == "strcat"
//@   ensures @text: result == nil ==> out(sb) == W(mapdom(ctx.scope), mapval(ctx.scope), ctx.mode, x, old(out(sb)))
//@   ensures @arity: !arityOK(x.Func.Name, len(x.Args)) ==> result != nil
//@   ensures @fails: (result != nil) == Wfail(mapdom(ctx.scope), ctx.mode, x)
//@   assigns out(sb)
//@   decreases height(x), 0
//@ loop 1
//@   invariant !WfailL(mapdom(ctx.scope), ctx.mode, x.Args, rangeindex + 2)
//@   invariant -1 <= rangeindex && rangeindex < len(x.Args) - 1
//@   invariant Wcat(mapdom(ctx.scope), mapval(ctx.scope), ctx.mode, x.Args, rangeindex + 2, out(sb)) == Wcat(mapdom(ctx.scope), mapval(ctx.scope), ctx.mode, x.Args, 1, WMP(mapdom(ctx.scope), mapval(ctx.scope), ctx.mode, x.Args[0], old(out(sb))))
//@   decreases len(x.Args) - rangeindex

//@ func pql.writeCountFunction
//@   use expr fail
//@   requires ctx != nil && sb != nil && typeis(x, "CallExpr") && exprWF(x) && x.Func.Name == "count"
//@   ensures @text: result == nil ==> out(sb) == W(mapdom(ctx.scope), mapval(ctx.scope), ctx.mode, x, old(out(sb)))
//@   ensures @arity: !arityOK(x.Func.Name, len(x.Args)) ==> result != nil
//@   ensures @fails: (result != nil) == Wfail(mapdom(ctx.scope), ctx.mode, x)
//@   assigns out(sb)
//@   decreases height(x), 0

//@ func pql.writeCountIfFunction
//@   use expr fail
//@   requires ctx != nil && sb != nil && typeis(x, "CallExpr") && exprWF(x) && x.Func.Name == "countif"
//@   ensures @text: result == nil ==> out(sb) == W(mapdom(ctx.scope), mapval(ctx.scope), ctx.mode, x, old(out(sb)))
//@   ensures @arity: !arityOK(x.Func.Name, len(x.Args)) ==> result != nil
//@   ensures @fails: (result != nil) == Wfail(mapdom(ctx.scope), ctx.mode, x)
//@   assigns out(sb)
//@   decreases height(x), 0

//@ func pql.writeIfFunction
//@   use expr fail
//@   requires ctx != nil && sb != nil && typeis(x, "CallExpr") && exprWF(x) && (x.Func.Name == "iff" || x.Func.Name == "iif")
//@   ensures @text: result == nil ==> out(sb) == W(mapdom(ctx.scope), mapval(ctx.scope), ctx.mode, x, old(out(sb)))
//@   ensures @arity: !arityOK(x.Func.Name, len(x.Args)) ==> result != nil
//@   ensures @fails: (result != nil) == Wfail(mapdom(ctx.scope), ctx.mode, x)
//@   assigns out(sb)
//@   decreases height(x), 0

//@ func pql.writeToLowerFunction
//@   use expr fail
//@   requires ctx != nil && sb != nil && typeis(x, "CallExpr") && exprWF(x) && x.Func.Name == "tolower"
//@   ensures @text: result == nil ==> out(sb) == W(mapdom(ctx.scope), mapval(ctx.scope), ctx.mode, x, old(out(sb)))
//@   ensures @arity: !arityOK(x.Func.Name, len(x.Args)) ==> result != nil
//@   ensures @fails: (result != nil) == Wfail(mapdom(ctx.scope), ctx.mode, x)
//@   assigns out(sb)
//@   decreases height(x), 0

//@ func pql.writeToUpperFunction
//@   use expr fail
//@   requires ctx != nil && sb != nil && typeis(x, "CallExpr") && exprWF(x) && x.Func.Name == "toupper"
//@   ensures @text: result == nil ==> out(sb) == W(mapdom(ctx.scope), mapval(ctx.scope), ctx.mode, x, old(out(sb)))
//@   ensures @arity: !arityOK(x.Func.Name, len(x.Args)) ==> result != nil
//@   ensures @fails: (result != nil) == Wfail(mapdom(ctx.scope), ctx.mode, x)
//@   assigns out(sb)
//@   decreases height(x), 0

//@ func pql.writeExpressionOperand
//@   use expr fail
//@   requires ctx != nil && sb != nil && exprWF(x)
//@   ensures @text: result == nil ==> out(sb) == WMPu(mapdom(ctx.scope), mapval(ctx.scope), ctx.mode, x, old(out(sb)))
//@   ensures @fails: (result != nil) == Wfail(mapdom(ctx.scope), ctx.mode, x)
//@   assigns out(sb)
//@   decreases height(x), 3
//@ loop 1
//@   invariant exprWF(y) && strip(y) == strip(x) && height(y) <= height(x)
//@   decreases height(y)

// ---------------------------------------------------------------- one subquery

//@ func pql.(*subquery).write
//@   use plan fail
//@   requires sub != nil && ctx != nil && sb != nil
//@   requires opWF(ctx.source, sub.op) && sortWF(sub.sort) && takeWF(sub.take)
//@   ensures @text: result == nil ==> out(sb) == WS(mapdom(ctx.scope), mapval(ctx.scope), ctx.mode, ctx.source, sub.sourceSQL, sub.op, sub.sort, sub.take, old(out(sb)))
//@   ensures @fails: (result != nil) == subFail(mapdom(ctx.scope), ctx.mode, sub.op, sub.sort, sub.take)
//@   assigns out(sb)
//@ loop 1
//@   invariant !colsFailL(mapdom(ctx.scope), ctx.mode, op_ProjectOperator.Cols, rangeindex + 1)
//@   invariant -1 <= rangeindex && rangeindex < len(op_ProjectOperator.Cols)
//@   invariant WprojCols(mapdom(ctx.scope), mapval(ctx.scope), ctx.mode, op_ProjectOperator.Cols, rangeindex + 1, out(sb)) == WprojCols(mapdom(ctx.scope), mapval(ctx.scope), ctx.mode, op_ProjectOperator.Cols, 0, olit(old(out(sb)), "SELECT "))
//@   decreases len(op_ProjectOperator.Cols) - rangeindex
//@ loop 2
//@   invariant !colsFailL(mapdom(ctx.scope), ctx.mode, op_ExtendOperator.Cols, rangeindex + 1)
//@   invariant -1 <= rangeindex && rangeindex < len(op_ExtendOperator.Cols)
//@   invariant WextCols(mapdom(ctx.scope), mapval(ctx.scope), ctx.mode, ctx.source, op_ExtendOperator.Cols, rangeindex + 1, out(sb)) == WextCols(mapdom(ctx.scope), mapval(ctx.scope), ctx.mode, ctx.source, op_ExtendOperator.Cols, 0, olit(old(out(sb)), "SELECT *"))
//@   decreases len(op_ExtendOperator.Cols) - rangeindex
//@ loop 3
//@   invariant !colsFailL(mapdom(ctx.scope), ctx.mode, op_SummarizeOperator.GroupBy, rangeindex + 1)
//@   invariant -1 <= rangeindex && rangeindex < len(op_SummarizeOperator.GroupBy)
//@   invariant WsumCols(mapdom(ctx.scope), mapval(ctx.scope), ctx.mode, ctx.source, op_SummarizeOperator.GroupBy, false, rangeindex + 1, out(sb)) == WsumCols(mapdom(ctx.scope), mapval(ctx.scope), ctx.mode, ctx.source, op_SummarizeOperator.GroupBy, false, 0, olit(old(out(sb)), "SELECT "))
//@   decreases len(op_SummarizeOperator.GroupBy) - rangeindex
//@ loop 4
//@   invariant !colsFailL(mapdom(ctx.scope), ctx.mode, op_SummarizeOperator.Cols, rangeindex + 1)
//@   invariant -1 <= rangeindex && rangeindex < len(op_SummarizeOperator.Cols)
//@   invariant WsumCols(mapdom(ctx.scope), mapval(ctx.scope), ctx.mode, ctx.source, op_SummarizeOperator.Cols, len(op_SummarizeOperator.GroupBy) > 0, rangeindex + 1, out(sb)) == WsumCols(mapdom(ctx.scope), mapval(ctx.scope), ctx.mode, ctx.source, op_SummarizeOperator.Cols, len(op_SummarizeOperator.GroupBy) > 0, 0, WsumCols(mapdom(ctx.scope), mapval(ctx.scope), ctx.mode, ctx.source, op_SummarizeOperator.GroupBy, false, 0, olit(old(out(sb)), "SELECT ")))
//@   decreases len(op_SummarizeOperator.Cols) - rangeindex
//@ loop 5
//@   invariant !colsFailL(mapdom(ctx.scope), ctx.mode, op_SummarizeOperator.GroupBy, rangeindex + 1)
//@   invariant -1 <= rangeindex && rangeindex < len(op_SummarizeOperator.GroupBy)
//@   invariant WgroupBy(mapdom(ctx.scope), mapval(ctx.scope), ctx.mode, op_SummarizeOperator.GroupBy, rangeindex + 1, out(sb)) == WgroupBy(mapdom(ctx.scope), mapval(ctx.scope), ctx.mode, op_SummarizeOperator.GroupBy, 0, olit(OStr(olit(WsumCols(mapdom(ctx.scope), mapval(ctx.scope), ctx.mode, ctx.source, op_SummarizeOperator.Cols, len(op_SummarizeOperator.GroupBy) > 0, 0, WsumCols(mapdom(ctx.scope), mapval(ctx.scope), ctx.mode, ctx.source, op_SummarizeOperator.GroupBy, false, 0, olit(old(out(sb)), "SELECT "))), " FROM "), sub.sourceSQL), " GROUP BY "))
//@   decreases len(op_SummarizeOperator.GroupBy) - rangeindex
//@ loop 6
//@   invariant -1 <= rangeindex && rangeindex < len(op_RenderOperator.Props)
//@   invariant Wprops(op_RenderOperator.Props, rangeindex + 1, out(sb)) == Wprops(op_RenderOperator.Props, 0, olit(QS(op_RenderOperator.ChartType.Name, olit(old(out(sb)), "SELECT *,\n    ")), " as \"render_type\""))
//@   decreases len(op_RenderOperator.Props) - rangeindex
//@ loop 7
//@   invariant !colsFailL(mapdom(ctx.scope), ctx.mode, sub.sort.Terms, rangeindex + 1)
//@   invariant -1 <= rangeindex && rangeindex < len(sub.sort.Terms)
//@   invariant Wterms(mapdom(ctx.scope), mapval(ctx.scope), ctx.mode, sub.sort.Terms, rangeindex + 1, out(sb)) == Wterms(mapdom(ctx.scope), mapval(ctx.scope), ctx.mode, sub.sort.Terms, 0, olit(WSop(mapdom(ctx.scope), mapval(ctx.scope), ctx.mode, ctx.source, sub.sourceSQL, sub.op, old(out(sb))), " ORDER BY "))
//@   decreases len(sub.sort.Terms) - rangeindex

// ---------------------------------------------------------------- splitting a pipeline into subqueries

//@ func pql.subqueryName
//@   use plan
//@   trusted fmt.Sprintf("__subquery%d", i) is a function of i (sqn), injective in i
//@   ensures result == sqn(i)

//@ func pql.canAttachSort
//@   use plan
//@   ensures result == canAttach(op)

//@ func pql.dataSourceSQL
//@   use plan
//@   requires sb != nil && srcWF(src)
//@   ensures result == nil && out(sb) == QI(tableNameOf(src), old(out(sb)))
//@   assigns out(sb)

//@ func pql.chainSubquery
//@   inline
//@   use plan
//@   requires srcWF(src) && 0 <= dstStart && dstStart <= len(dst)
//@   requires forall(j, 0, len(dst), dst[j] != nil && dst[j] < alloc())
//@   ensures @ok: result1 == nil && result0 != nil && result0 >= old(alloc()) && result0 < alloc()
//@   ensures @fields: result0.name == sqn(len(dst)) && result0.op == nil && result0.sort == nil && result0.take == nil
//@   ensures @source: result0.sourceSQL == ite(len(dst) > dstStart, refSQL(dst[len(dst)-1].name), tableSQL(src))

//@ func pql.rewriteSimpleJoinCondition
//@   use joincond
//@   requires exprWF(c)
//@   ensures result == rewriteCond(c)

//@ func pql.buildJoinCondition
//@   use joincond
//@   requires exprWFL(conds, len(conds))
//@   ensures result == JoinCond(conds)
//@ loop 1
//@   invariant -1 <= rangeindex && rangeindex < len(conds) - 1
//@   invariant x == JC(conds, rangeindex + 2)
//@   decreases len(conds) - rangeindex

//@ func pql.splitQueries
//@   use split fail
//@   hide expr exprwf joincond view
//@   requires tabWF(source, expr)
//@   requires allBelow(dst, len(dst), alloc()) && distinctL(dst, len(dst))
//@   ensures @plan: result1 == nil ==> viewL(fieldheap("subquery", "name"), fieldheap("subquery", "sourceSQL"), fieldheap("subquery", "op"), fieldheap("subquery", "sort"), fieldheap("subquery", "take"), result0, len(result0)) == SplitT(mapdom(scope), mapval(scope), expr, old(viewL(fieldheap("subquery", "name"), fieldheap("subquery", "sourceSQL"), fieldheap("subquery", "op"), fieldheap("subquery", "sort"), fieldheap("subquery", "take"), dst, len(dst))))
//@   ensures @refs: result1 == nil ==> len(result0) > len(dst) && allBelow(result0, len(result0), alloc()) && distinctL(result0, len(result0))
//@   ensures @prefix: result1 == nil ==> forall(j, 0, len(dst), result0[j] == dst[j]) && forall(j, len(dst), len(result0), result0[j] >= old(alloc()))
//@   ensures @wf: result1 == nil ==> forall(j, len(dst), len(result0), subWF(source, subAt(fieldheap("subquery", "name"), fieldheap("subquery", "sourceSQL"), fieldheap("subquery", "op"), fieldheap("subquery", "sort"), fieldheap("subquery", "take"), result0[j])))
//@   ensures @fails: (result1 != nil) == joinsFailL(mapdom(scope), expr.Operators, len(expr.Operators))
//@   decreases height(expr)
//@ loop 1
//@   invariant !joinsFailL(mapdom(scope), expr.Operators, i)
//@   invariant 0 <= i && i <= len(expr.Operators) && dstStart == len(old(dst)) && len(dst) >= dstStart
//@   invariant allBelow(dst, len(dst), alloc()) && distinctL(dst, len(dst))
//@   invariant forall(j, 0, dstStart, dst[j] == old(dst)[j]) && forall(j, dstStart, len(dst), dst[j] >= old(alloc()))
//@   invariant (len(dst) == dstStart && lastSubquery == nil) || (len(dst) > dstStart && lastSubquery == dst[len(dst)-1])
//@   invariant Split(mapdom(scope), mapval(scope), expr.Operators, i, viewL(fieldheap("subquery", "name"), fieldheap("subquery", "sourceSQL"), fieldheap("subquery", "op"), fieldheap("subquery", "sort"), fieldheap("subquery", "take"), dst, len(dst)), dstStart, expr.Source) == Split(mapdom(scope), mapval(scope), expr.Operators, 0, old(viewL(fieldheap("subquery", "name"), fieldheap("subquery", "sourceSQL"), fieldheap("subquery", "op"), fieldheap("subquery", "sort"), fieldheap("subquery", "take"), dst, len(dst))), dstStart, expr.Source)
//@   invariant forall(j, dstStart, len(dst), subWF(source, subAt(fieldheap("subquery", "name"), fieldheap("subquery", "sourceSQL"), fieldheap("subquery", "op"), fieldheap("subquery", "sort"), fieldheap("subquery", "take"), dst[j])))
//@   invariant forall(r, 0, old(alloc()), fieldheap("subquery", "name")[r] == old(fieldheap("subquery", "name"))[r])
//@   invariant forall(r, 0, old(alloc()), fieldheap("subquery", "sourceSQL")[r] == old(fieldheap("subquery", "sourceSQL"))[r])
//@   invariant forall(r, 0, old(alloc()), fieldheap("subquery", "op")[r] == old(fieldheap("subquery", "op"))[r])
//@   invariant forall(r, 0, old(alloc()), fieldheap("subquery", "sort")[r] == old(fieldheap("subquery", "sort"))[r])
//@   invariant forall(r, 0, old(alloc()), fieldheap("subquery", "take")[r] == old(fieldheap("subquery", "take"))[r])
//@   decreases len(expr.Operators) - i

// ---------------------------------------------------------------- Compile

//@ func pql.Compile
//@   use clidecl
//@   function compileSQL
//@   ensures @function: result0 == compileSQL(source) && (result1 == nil) == compileOK(source)
//@   ensures @either: (result0 != "" && result1 == nil) || (result0 == "" && result1 != nil)

//@ func pql.(*CompileOptions).Compile
//@   function compileOf
//@   use compile cfail
//@   hide expr exprwf joincond view
//@   ensures @either: (result0 != "" && result1 == nil) || (result0 == "" && result1 != nil)
//@   ensures @ok.query: expr == FQ(stmts, len(stmts)) && NQ(stmts, len(stmts)) == 1 && tabWF(source, expr)
//@   ensures @ok.scopedom: mapdom(scope) == SD(stmts, len(stmts), atloop(2, mapdom(scope)), atloop(2, mapval(scope)))
//@   ensures @ok.scopeval: mapval(scope) == SV(stmts, len(stmts), atloop(2, mapdom(scope)), atloop(2, mapval(scope)))
//@   ensures @ok.params: forallS(k, "Str", atloop(2, mapdom(scope))[k] == ite(opts == nil, false, mapdom(opts.Parameters)[k]))
//@   ensures @ok.paramvals: opts != nil ==> forallS(k, "Str", mapdom(opts.Parameters)[k] ==> atloop(2, mapval(scope))[k] == mapval(opts.Parameters)[k])
//@   ensures @ok.plan: viewL(fieldheap("subquery", "name"), fieldheap("subquery", "sourceSQL"), fieldheap("subquery", "op"), fieldheap("subquery", "sort"), fieldheap("subquery", "take"), subqueries, len(subqueries)) == SplitT(mapdom(scope), mapval(scope), expr, Seq_Sub.empty)
//@   ensures @ok.text: result0 == Out.str(StmtOut(mapdom(scope), mapval(scope), source, viewL(fieldheap("subquery", "name"), fieldheap("subquery", "sourceSQL"), fieldheap("subquery", "op"), fieldheap("subquery", "sort"), fieldheap("subquery", "take"), subqueries, len(subqueries))))
//@   ensures @ok.nofail: !compFailS(stmts, atloop(2, mapdom(scope)), atloop(2, mapval(scope)))
//@   ensures @err.fails: compFailS(stmts, atloop(2, mapdom(scope)), atloop(2, mapval(scope)))
//@ loop 1
//@   invariant scope != nil && scope >= old(alloc()) && scope < alloc() && opts != nil
//@   invariant forallS(k, "Str", mapdom(scope)[k] == seen[k])
//@   invariant forallS(k, "Str", seen[k] ==> mapdom(opts.Parameters)[k] && mapval(scope)[k] == mapval(opts.Parameters)[k])
//@   invariant forall(r, 0, old(alloc()), maparr("dom")[r] == old(maparr("dom"))[r]) && forall(r, 0, old(alloc()), maparr("val")[r] == old(maparr("val"))[r])
//@ loop 2
//@   invariant -1 <= rangeindex && rangeindex < len(stmts) && stmtsWF(source, stmts, len(stmts))
//@   invariant scope != nil && scope >= old(alloc()) && scope < alloc()
//@   invariant mapdom(scope) == SD(stmts, rangeindex + 1, atloop(2, mapdom(scope)), atloop(2, mapval(scope)))
//@   invariant mapval(scope) == SV(stmts, rangeindex + 1, atloop(2, mapdom(scope)), atloop(2, mapval(scope)))
//@   invariant expr == FQ(stmts, rangeindex + 1) && QB(stmts, rangeindex + 1) == (expr != nil) && NQ(stmts, rangeindex + 1) == ite(expr != nil, 1, 0)
//@   invariant expr != nil ==> tabWF(source, expr)
//@   invariant forall(r, 0, old(alloc()), maparr("dom")[r] == old(maparr("dom"))[r]) && forall(r, 0, old(alloc()), maparr("val")[r] == old(maparr("val"))[r])
//@   invariant forall(r, 0, old(alloc()), out(r) == old(out(r)))
//@   invariant !stmtsFail(stmts, rangeindex + 1, atloop(2, mapdom(scope)), atloop(2, mapval(scope)))
//@   decreases len(stmts) - rangeindex
//@ loop 3
//@   invariant -1 <= rangeindex && rangeindex < len(subqueries) - 1 && sb != nil && sb >= old(alloc())
//@   invariant WCtes(mapdom(scope), mapval(scope), source, viewL(fieldheap("subquery", "name"), fieldheap("subquery", "sourceSQL"), fieldheap("subquery", "op"), fieldheap("subquery", "sort"), fieldheap("subquery", "take"), subqueries, len(subqueries)), rangeindex + 1, len(subqueries) - 1, out(sb)) == WCtes(mapdom(scope), mapval(scope), source, viewL(fieldheap("subquery", "name"), fieldheap("subquery", "sourceSQL"), fieldheap("subquery", "op"), fieldheap("subquery", "sort"), fieldheap("subquery", "take"), subqueries, len(subqueries)), 0, len(subqueries) - 1, olit(OEmpty, "WITH "))
//@   invariant forall(r, 0, old(alloc()), out(r) == old(out(r)))
//@   invariant !planFailL(mapdom(scope), viewL(fieldheap("subquery", "name"), fieldheap("subquery", "sourceSQL"), fieldheap("subquery", "op"), fieldheap("subquery", "sort"), fieldheap("subquery", "take"), subqueries, len(subqueries)), rangeindex + 1)
//@   decreases len(subqueries) - rangeindex

// ---------------------------------------------------------------- line:column of error messages

//@ func pql.linecol
//@   use linecol
//@   requires 0 <= pos && pos <= len(source)
//@   ensures @line: line == LCl(source[0:pos], 0, 1, 1)
//@   ensures @col: col == LCc(source[0:pos], 0, 1, 1)
//@   ensures @inside: line >= 1 && col >= 1
//@ loop 1
//@   invariant 0 <= nextpos && nextpos <= pos && line >= 1 && col >= 1
//@   invariant LCl(source[0:pos], nextpos, line, col) == LCl(source[0:pos], 0, 1, 1)
//@   invariant LCc(source[0:pos], nextpos, line, col) == LCc(source[0:pos], 0, 1, 1)
//@   decreases pos - nextpos
