//go:build verif

// Contracts for package parser, read by /verif/govc (comment-only file: with
// the build tag off it is not compiled, with it on it declares nothing).
// Syntax: see /verif/DESIGN.md section 2.2.

package parser

// ---------------------------------------------------------------- span.go

//@ func parser.newSpan
//@   inline
//@   ensures result.Start == start && result.End == end

//@ func parser.indexSpan
//@   inline
//@   ensures result.Start == i && result.End == i

//@ func parser.nullSpan
//@   inline
//@   ensures result.Start == -1 && result.End == -1

//@ func parser.(Span).IsValid
//@   inline
//@   use spanof
//@   ensures result == spanValid(span)

//@ func parser.(Span).Len
//@   use spanof
//@   ensures result == ite(spanValid(span), span.End - span.Start, 0)
//@   ensures result >= 0

//@ func parser.unionSpans
//@   use spanof
//@   ensures result == hullSeq(spans, len(spans))
//@ loop 1
//@   invariant -1 <= rangeindex && rangeindex < len(spans)
//@   invariant u == hullSeq(spans, rangeindex + 1)
//@   decreases len(spans) - rangeindex

//@ func parser.spanString
//@   use spanof
//@   requires spanValid(span) ==> span.End <= len(s)
//@   ensures spanValid(span) ==> result == s[span.Start:span.End]
//@   ensures !spanValid(span) ==> result == ""

// ---------------------------------------------------------------- ast.go
// The thirty Span() methods get a generated contract (see /verif/govc/gen.go):
//   requires spanSafe(receiver)   ensures result == SpanOf(receiver)
// where SpanOf is derived from the struct type: the hull of every Span field,
// every Node field and every slice-of-Node field, in field order.

//@ func parser.nodeSpan
//@   use spanof height
//@   requires spanSafe(n)
//@   ensures result == SpanOf(n)
//@   decreases height(n), 1

//@ func parser.nodeSliceSpan
//@   use spanof height
//@   requires spanSafeList(nodes, len(nodes))
//@   ensures result == SpanOfList(nodes, len(nodes))
//@   decreases lheight(nodes), 2
//@ loop 1
//@   invariant -1 <= rangeindex && rangeindex < len(nodes)
//@   invariant hullSeq(spans, len(spans)) == SpanOfList(nodes, rangeindex + 1)
//@   decreases len(nodes) - rangeindex

// ---------------------------------------------------------------- lex.go

//@ func parser.(*scanner).next
//@   use lex
//@   requires s != nil && scOK(s.last, s.pos, len(s.s))
//@   ensures scOK(s.last, s.pos, len(s.s))
//@   ensures !result1 ==> old(s.pos) == len(s.s) && s.pos == old(s.pos) && s.last == old(s.last) && result0 == 0
//@   ensures result1 ==> old(s.pos) < len(s.s) && s.last == old(s.pos) && s.pos == old(s.pos) + runeWidth(s.s, old(s.pos)) && result0 == runeAt(s.s, old(s.pos))
//@   assigns s.pos, s.last

//@ func parser.(*scanner).prev
//@   inline
//@   requires s != nil
//@   ensures s.pos == old(s.last) && s.last == old(s.last)
//@   assigns s.pos

//@ func parser.(*scanner).setPos
//@   inline
//@   requires s != nil
//@   ensures s.pos == pos && s.last == pos
//@   assigns s.pos, s.last

//@ func parser.isAlpha
//@   inline
//@   use lex
//@   ensures result == isAlphaC(c)

//@ func parser.isDigit
//@   inline
//@   use lex
//@   ensures result == isDigitC(c)

//@ func parser.isHexDigit
//@   inline
//@   use lex
//@   ensures result == isHexC(c)

//@ func parser.(*scanner).ident
//@   use lex
//@   requires s != nil && scOK(s.last, s.pos, len(s.s))
//@   requires s.pos < len(s.s) && identStartC(runeAt(s.s, s.pos))
//@   ensures scOK(s.last, s.pos, len(s.s))
//@   ensures @span: result.Span.Start == old(s.pos) && result.Span.End == s.pos && old(s.pos) < s.pos
//@   ensures @first: identStartC(s.s[old(s.pos)])
//@   ensures @rest: forall(i, old(s.pos) + 1, s.pos, identContC(s.s[i]))
//@   ensures @longest: s.pos == len(s.s) || !identContC(s.s[s.pos])
//@   ensures @kind: result.Kind == identKind(s.s[old(s.pos):s.pos]) && result.Value == identValue(s.s[old(s.pos):s.pos])
//@   assigns s.pos, s.last
//@ loop 1
//@   invariant scOK(s.last, s.pos, len(s.s)) && start < s.pos
//@   invariant identStartC(s.s[start])
//@   invariant forall(i, start + 1, s.pos, identContC(s.s[i]))
//@   decreases len(s.s) - s.pos

//@ func parser.errorToken
//@   ensures result.Kind == TokenError && result.Span == span

//@ func parser.(*scanner).quotedIdent
//@   use lex
//@   requires s != nil && scOK(s.last, s.pos, len(s.s))
//@   requires s.pos < len(s.s) && s.s[s.pos] == '`'
//@   ensures scOK(s.last, s.pos, len(s.s))
//@   ensures @span: result.Span.Start == old(s.pos) && result.Span.End == s.pos && old(s.pos) < s.pos
//@   ensures @kind: result.Kind == TokenQuotedIdentifier || result.Kind == TokenError
//@   ensures @closed: result.Kind == TokenQuotedIdentifier ==> old(s.pos) + 2 <= s.pos && s.s[s.pos-1] == '`' && qbody(s.s, old(s.pos) + 1, s.pos - 1) && (s.pos == len(s.s) || s.s[s.pos] != '`')
//@   ensures @value: result.Kind == TokenQuotedIdentifier ==> result.Value == strings.ReplaceAll(s.s[old(s.pos)+1:s.pos-1], "``", "`")
//@   ensures @unterminated: result.Kind == TokenError ==> s.s[old(s.pos)] == '`' && qbody(s.s, old(s.pos) + 1, s.pos) && (s.pos == len(s.s) || s.s[s.pos] == '\n')
//@   assigns s.pos, s.last
//@ loop 1
//@   invariant scOK(s.last, s.pos, len(s.s)) && start < s.pos && s.s[start] == '`'
//@   invariant qbody(s.s, start + 1, s.pos)
//@   decreases len(s.s) - s.pos

//@ func parser.(*scanner).numberExponent
//@   use lex
//@   requires s != nil && scOK(s.last, s.pos, len(s.s))
//@   ensures scOK(s.last, s.pos, len(s.s))
//@   ensures @notfound: !result ==> s.pos == old(s.pos)
//@   ensures @found: result ==> expHead(s.s, old(s.pos), s.pos) && digitEnd(s.s, s.pos)
//@   ensures @complete: !result ==> !expStartsAt(s.s, old(s.pos))
//@   ensures @nodots: ndots(s.s, old(s.pos), s.pos) == 0
//@   ensures @alphabet: allNumBytes(s.s, old(s.pos), s.pos)
//@   assigns s.pos, s.last
//@ loop 1
//@   invariant scOK(s.last, s.pos, len(s.s)) && expHead(s.s, start, s.pos)
//@   invariant ndots(s.s, start, s.pos) == 0
//@   invariant allNumBytes(s.s, start, s.pos)
//@   decreases len(s.s) - s.pos

//@ func parser.normalizeNumberValue
//@   use lex
//@   ensures @alphabet: numBytesOf(s) ==> numBytesOf(result)
//@   ensures @nonempty: len(result) > 0
//@   ensures @value: result == normNum(s)

//@ func parser.(*scanner).numberOrDot
//@   use lex
//@   requires s != nil && scOK(s.last, s.pos, len(s.s))
//@   requires s.pos < len(s.s) && (isDigitC(s.s[s.pos]) || s.s[s.pos] == '.')
//@   ensures scOK(s.last, s.pos, len(s.s))
//@   ensures @span: result.Span.Start == old(s.pos) && result.Span.End == s.pos && old(s.pos) < s.pos
//@   ensures @kind: result.Kind == TokenNumber || result.Kind == TokenDot || result.Kind == TokenError
//@   ensures @dot: result.Kind == TokenDot ==> s.pos == old(s.pos) + 1 && s.s[old(s.pos)] == '.' && digitEnd(s.s, s.pos) && result.Value == ""
//@   ensures @alphabet: result.Kind == TokenNumber ==> allNumBytes(s.s, old(s.pos), s.pos)
//@   ensures @longest: result.Kind == TokenNumber ==> digitEnd(s.s, s.pos)
//@   ensures @onedot: result.Kind == TokenNumber ==> ndots(s.s, old(s.pos), s.pos) <= 1
//@   ensures @value: result.Kind == TokenNumber ==> numBytesOf(result.Value) && len(result.Value) > 0
//@   ensures @hexvalue: result.Kind == TokenNumber && old(s.pos) + 1 < len(s.s) && s.s[old(s.pos)] == '0' && (s.s[old(s.pos)+1] == 'x' || s.s[old(s.pos)+1] == 'X') ==> result.Value == hexValue(s.s[old(s.pos)+2:s.pos])
//@   ensures @decvalue: result.Kind == TokenNumber && !(old(s.pos) + 1 < len(s.s) && s.s[old(s.pos)] == '0' && (s.s[old(s.pos)+1] == 'x' || s.s[old(s.pos)+1] == 'X')) ==> result.Value == normNum(s.s[old(s.pos):s.pos])
//@   ensures @shape: result.Kind == TokenNumber ==> ite(hexPrefixAt(s.s, old(s.pos)), old(s.pos) + 2 < s.pos && allHex(s.s, old(s.pos) + 2, s.pos), decShape(s.s, old(s.pos), s.pos))
//@   ensures @maxexp: result.Kind == TokenNumber && !(old(s.pos) + 1 < len(s.s) && s.s[old(s.pos)] == '0' && (s.s[old(s.pos)+1] == 'x' || s.s[old(s.pos)+1] == 'X')) ==> endsInExp(s.s, old(s.pos), s.pos) || !expStartsAt(s.s, s.pos)
//@   ensures @brokenhex: result.Kind == TokenError ==> s.s[old(s.pos)] == '0' && (s.s[old(s.pos)+1] == 'x' || s.s[old(s.pos)+1] == 'X') && (s.pos == old(s.pos) + 2 || (old(s.pos) + 2 < s.pos && allHex(s.s, old(s.pos) + 2, s.pos)))
//@   assigns s.pos, s.last
//@ loop 1
//@   invariant scOK(s.last, s.pos, len(s.s)) && hexDigitStart == start + 2 && hexDigitStart < s.pos
//@   invariant s.s[start] == '0' && (s.s[start+1] == 'x' || s.s[start+1] == 'X')
//@   invariant allHex(s.s, hexDigitStart, s.pos)
//@   invariant ndots(s.s, start, s.pos) == 0
//@   decreases len(s.s) - s.pos
//@ loop 2
//@   invariant scOK(s.last, s.pos, len(s.s)) && start < s.pos
//@   invariant forall(i, start, s.pos, isDigitC(s.s[i]) || s.s[i] == '.')
//@   invariant ndots(s.s, start, s.pos) == ite(hasDecimalPoint, 1, 0)
//@   decreases len(s.s) - s.pos

//@ func parser.(*scanner).string
//@   use lex
//@   requires s != nil && scOK(s.last, s.pos, len(s.s))
//@   requires s.pos < len(s.s) && (s.s[s.pos] == '\'' || s.s[s.pos] == '"')
//@   ensures scOK(s.last, s.pos, len(s.s))
//@   ensures @span: result.Span.Start == old(s.pos) && result.Span.End == s.pos && old(s.pos) < s.pos
//@   ensures @kind: result.Kind == TokenString || result.Kind == TokenError
//@   ensures @closed: result.Kind == TokenString ==> old(s.pos) + 2 <= s.pos && s.s[s.pos-1] == s.s[old(s.pos)] && sbody(s.s, s.s[old(s.pos)], old(s.pos) + 1, s.pos - 1)
//@   ensures @value: result.Kind == TokenString ==> (nobs(s.s, old(s.pos) + 1, s.pos - 1) && result.Value == s.s[old(s.pos)+1:s.pos-1]) || (hasBS(s.s, old(s.pos) + 1, s.pos - 1) && result.Value == sdecS(s.s, old(s.pos) + 1, s.pos - 1))
//@   ensures @unterminated: result.Kind == TokenError ==> (s.pos == len(s.s) || s.s[s.pos] == '\n') && (sbody(s.s, s.s[old(s.pos)], old(s.pos) + 1, s.pos) || (sbody(s.s, s.s[old(s.pos)], old(s.pos) + 1, s.pos - 1) && s.s[s.pos-1] == '\\'))
//@   assigns s.pos, s.last
//@ loop 1
//@   invariant scOK(s.last, s.pos, len(s.s)) && start < s.pos && valueStart == start + 1
//@   invariant quoteChar == s.s[start] && (quoteChar == '\'' || quoteChar == '"')
//@   invariant sbody(s.s, quoteChar, valueStart, s.pos)
//@   invariant valueBuilder == nil || valueBuilder >= old(alloc())
//@   invariant forall(r, 0, old(alloc()), out(r) == old(out(r)))
//@   invariant valueBuilder == nil ==> nobs(s.s, valueStart, s.pos)
//@   invariant valueBuilder != nil ==> hasBS(s.s, valueStart, s.pos) && out(valueBuilder) == sdecV(s.s, valueStart, s.pos)
//@   decreases len(s.s) - s.pos

//@ func parser.Scan
//@   use lex
//@   function scanOf
//@   ensures @function: result == scanOf(query)
//@   ensures @inrange: forall(j, 0, len(result), 0 <= result[j].Span.Start && result[j].Span.Start < result[j].Span.End && result[j].Span.End <= len(query))
//@   ensures @ordered: forall(i, 0, len(result), forall(j, i + 1, len(result), result[i].Span.End <= result[j].Span.Start))
//@   ensures @gaps: forall(j, 0, len(result), gap(query, prevEnd(result, j), result[j].Span.Start))
//@   ensures @tailgap: gap(query, prevEnd(result, len(result)), len(query))
//@   ensures @tokens: forall(j, 0, len(result), tokenOK(query, result[j]))
//@ loop 1
//@   invariant s.s == query && scOK(s.last, s.pos, len(query))
//@   invariant forall(j, 0, len(tokens), 0 <= tokens[j].Span.Start && tokens[j].Span.Start < tokens[j].Span.End && tokens[j].Span.End <= s.pos)
//@   invariant forall(i, 0, len(tokens), forall(j, i + 1, len(tokens), tokens[i].Span.End <= tokens[j].Span.Start))
//@   invariant forall(j, 0, len(tokens), gap(query, prevEnd(tokens, j), tokens[j].Span.Start))
//@   invariant gap(query, prevEnd(tokens, len(tokens)), s.pos)
//@   invariant forall(j, 0, len(tokens), tokenOK(query, tokens[j]))
//@   decreases len(query) - s.pos
//@ loop 2
//@   invariant s.s == query && scOK(s.last, s.pos, len(query))
//@   invariant start + 2 <= s.pos && query[start] == '/' && query[start+1] == '/' && noNL(query, start + 2, s.pos)
//@   decreases len(query) - s.pos

//@ func parser.SplitStatements
//@   use lex clidecl
//@   function splitOf
//@   ensures @function: result == splitOf(source)
//@   ensures @count: len(result) == nsemi(scanOf(source), len(scanOf(source))) + 1
//@   ensures @join: Str.cat(joinSemi(result, len(result) - 1), result[len(result)-1]) == source
//@ loop 1
//@   invariant -1 <= rangeindex && rangeindex < len(tokens)
//@   invariant 0 <= start && start <= len(source) && forall(j, rangeindex + 1, len(tokens), start <= tokens[j].Span.Start)
//@   invariant len(parts) == nsemi(tokens, rangeindex + 1)
//@   invariant joinSemi(parts, len(parts)) == source[0:start]
//@   decreases len(tokens) - rangeindex

// ---------------------------------------------------------------- ast.go: Walk
// `trace` is the ghost sequence of nodes handed to the visitor; vis(t, n) is the
// visitor's answer after history t. Pre/PreS/PKr are generated from the traversal
// table in /verif/govc/genwalk.go (Appendix C of DESIGN.md).

//@ func parser.Walk
//@   use walk
//@   ghosttrace visit
//@   requires walkWF(n)
//@   ensures @preorder: trace == Pre(n, Seq_Node.empty)
//@ loop 1
//@   invariant PreS(stack, trace) == Pre(old(n), Seq_Node.empty)
//@   invariant walkWFL(stack, len(stack))
//@   decreases stackSize(stack)
//@ loop 2
//@   invariant -1 <= i && i < len(n_QualifiedIdent.Parts) && 0 <= len(stack) - (len(n_QualifiedIdent.Parts) - 1 - i)
//@   invariant forallS(t, "Seq_Node", PreS(stack, t) == PreS(stack[0:len(stack) - (len(n_QualifiedIdent.Parts) - 1 - i)], PKr(n_QualifiedIdent.Parts, i + 1, t)))
//@   invariant PreS(stack[0:len(stack) - (len(n_QualifiedIdent.Parts) - 1 - i)], PKr(n_QualifiedIdent.Parts, 0, trace)) == Pre(old(n), Seq_Node.empty)
//@   invariant walkWFL(stack, len(stack)) && walkWFL(n_QualifiedIdent.Parts, len(n_QualifiedIdent.Parts))
//@   invariant stackSize(stack) == stackSize(stack[0:len(stack) - (len(n_QualifiedIdent.Parts) - 1 - i)]) + lsizeFrom(n_QualifiedIdent.Parts, i + 1)
//@   invariant stackSize(stack[0:len(stack) - (len(n_QualifiedIdent.Parts) - 1 - i)]) + lsizeFrom(n_QualifiedIdent.Parts, 0) + 0 < variant(1)
//@   decreases i + 1
//@ loop 3
//@   invariant -1 <= i && i < len(n_TabularExpr.Operators) && 0 <= len(stack) - (len(n_TabularExpr.Operators) - 1 - i)
//@   invariant forallS(t, "Seq_Node", PreS(stack, t) == PreS(stack[0:len(stack) - (len(n_TabularExpr.Operators) - 1 - i)], PKr(n_TabularExpr.Operators, i + 1, t)))
//@   invariant PreS(stack[0:len(stack) - (len(n_TabularExpr.Operators) - 1 - i)], PKr(n_TabularExpr.Operators, 0, Pre(n_TabularExpr.Source, trace))) == Pre(old(n), Seq_Node.empty)
//@   invariant walkWFL(stack, len(stack)) && walkWFL(n_TabularExpr.Operators, len(n_TabularExpr.Operators))
//@   invariant stackSize(stack) == stackSize(stack[0:len(stack) - (len(n_TabularExpr.Operators) - 1 - i)]) + lsizeFrom(n_TabularExpr.Operators, i + 1)
//@   invariant stackSize(stack[0:len(stack) - (len(n_TabularExpr.Operators) - 1 - i)]) + lsizeFrom(n_TabularExpr.Operators, 0) + size(n_TabularExpr.Source) < variant(1)
//@   decreases i + 1
//@ loop 4
//@   invariant -1 <= i && i < len(n_SortOperator.Terms) && 0 <= len(stack) - (len(n_SortOperator.Terms) - 1 - i)
//@   invariant forallS(t, "Seq_Node", PreS(stack, t) == PreS(stack[0:len(stack) - (len(n_SortOperator.Terms) - 1 - i)], PKr(n_SortOperator.Terms, i + 1, t)))
//@   invariant PreS(stack[0:len(stack) - (len(n_SortOperator.Terms) - 1 - i)], PKr(n_SortOperator.Terms, 0, trace)) == Pre(old(n), Seq_Node.empty)
//@   invariant walkWFL(stack, len(stack)) && walkWFL(n_SortOperator.Terms, len(n_SortOperator.Terms))
//@   invariant stackSize(stack) == stackSize(stack[0:len(stack) - (len(n_SortOperator.Terms) - 1 - i)]) + lsizeFrom(n_SortOperator.Terms, i + 1)
//@   invariant stackSize(stack[0:len(stack) - (len(n_SortOperator.Terms) - 1 - i)]) + lsizeFrom(n_SortOperator.Terms, 0) + 0 < variant(1)
//@   decreases i + 1
//@ loop 5
//@   invariant -1 <= i && i < len(n_ProjectOperator.Cols) && 0 <= len(stack) - (len(n_ProjectOperator.Cols) - 1 - i)
//@   invariant forallS(t, "Seq_Node", PreS(stack, t) == PreS(stack[0:len(stack) - (len(n_ProjectOperator.Cols) - 1 - i)], PKr(n_ProjectOperator.Cols, i + 1, t)))
//@   invariant PreS(stack[0:len(stack) - (len(n_ProjectOperator.Cols) - 1 - i)], PKr(n_ProjectOperator.Cols, 0, trace)) == Pre(old(n), Seq_Node.empty)
//@   invariant walkWFL(stack, len(stack)) && walkWFL(n_ProjectOperator.Cols, len(n_ProjectOperator.Cols))
//@   invariant stackSize(stack) == stackSize(stack[0:len(stack) - (len(n_ProjectOperator.Cols) - 1 - i)]) + lsizeFrom(n_ProjectOperator.Cols, i + 1)
//@   invariant stackSize(stack[0:len(stack) - (len(n_ProjectOperator.Cols) - 1 - i)]) + lsizeFrom(n_ProjectOperator.Cols, 0) + 0 < variant(1)
//@   decreases i + 1
//@ loop 6
//@   invariant -1 <= i && i < len(n_ExtendOperator.Cols) && 0 <= len(stack) - (len(n_ExtendOperator.Cols) - 1 - i)
//@   invariant forallS(t, "Seq_Node", PreS(stack, t) == PreS(stack[0:len(stack) - (len(n_ExtendOperator.Cols) - 1 - i)], PKr(n_ExtendOperator.Cols, i + 1, t)))
//@   invariant PreS(stack[0:len(stack) - (len(n_ExtendOperator.Cols) - 1 - i)], PKr(n_ExtendOperator.Cols, 0, trace)) == Pre(old(n), Seq_Node.empty)
//@   invariant walkWFL(stack, len(stack)) && walkWFL(n_ExtendOperator.Cols, len(n_ExtendOperator.Cols))
//@   invariant stackSize(stack) == stackSize(stack[0:len(stack) - (len(n_ExtendOperator.Cols) - 1 - i)]) + lsizeFrom(n_ExtendOperator.Cols, i + 1)
//@   invariant stackSize(stack[0:len(stack) - (len(n_ExtendOperator.Cols) - 1 - i)]) + lsizeFrom(n_ExtendOperator.Cols, 0) + 0 < variant(1)
//@   decreases i + 1
//@ loop 7
//@   invariant -1 <= i && i < len(n_SummarizeOperator.GroupBy) && 0 <= len(stack) - (len(n_SummarizeOperator.GroupBy) - 1 - i)
//@   invariant forallS(t, "Seq_Node", PreS(stack, t) == PreS(stack[0:len(stack) - (len(n_SummarizeOperator.GroupBy) - 1 - i)], PKr(n_SummarizeOperator.GroupBy, i + 1, t)))
//@   invariant PreS(stack[0:len(stack) - (len(n_SummarizeOperator.GroupBy) - 1 - i)], PKr(n_SummarizeOperator.GroupBy, 0, PKr(n_SummarizeOperator.Cols, 0, trace))) == Pre(old(n), Seq_Node.empty)
//@   invariant walkWFL(stack, len(stack)) && walkWFL(n_SummarizeOperator.GroupBy, len(n_SummarizeOperator.GroupBy))
//@   invariant stackSize(stack) == stackSize(stack[0:len(stack) - (len(n_SummarizeOperator.GroupBy) - 1 - i)]) + lsizeFrom(n_SummarizeOperator.GroupBy, i + 1)
//@   invariant stackSize(stack[0:len(stack) - (len(n_SummarizeOperator.GroupBy) - 1 - i)]) + lsizeFrom(n_SummarizeOperator.GroupBy, 0) + lsizeFrom(n_SummarizeOperator.Cols, 0) < variant(1)
//@   decreases i + 1
//@ loop 8
//@   invariant -1 <= i && i < len(n_SummarizeOperator.Cols) && 0 <= len(stack) - (len(n_SummarizeOperator.Cols) - 1 - i)
//@   invariant forallS(t, "Seq_Node", PreS(stack, t) == PreS(stack[0:len(stack) - (len(n_SummarizeOperator.Cols) - 1 - i)], PKr(n_SummarizeOperator.Cols, i + 1, t)))
//@   invariant PreS(stack[0:len(stack) - (len(n_SummarizeOperator.Cols) - 1 - i)], PKr(n_SummarizeOperator.Cols, 0, trace)) == Pre(old(n), Seq_Node.empty)
//@   invariant walkWFL(stack, len(stack)) && walkWFL(n_SummarizeOperator.Cols, len(n_SummarizeOperator.Cols))
//@   invariant stackSize(stack) == stackSize(stack[0:len(stack) - (len(n_SummarizeOperator.Cols) - 1 - i)]) + lsizeFrom(n_SummarizeOperator.Cols, i + 1)
//@   invariant stackSize(stack[0:len(stack) - (len(n_SummarizeOperator.Cols) - 1 - i)]) + lsizeFrom(n_SummarizeOperator.Cols, 0) + 0 < variant(1)
//@   decreases i + 1
//@ loop 9
//@   invariant -1 <= i && i < len(n_JoinOperator.Conditions) && 0 <= len(stack) - (len(n_JoinOperator.Conditions) - 1 - i)
//@   invariant forallS(t, "Seq_Node", PreS(stack, t) == PreS(stack[0:len(stack) - (len(n_JoinOperator.Conditions) - 1 - i)], PKr(n_JoinOperator.Conditions, i + 1, t)))
//@   invariant PreS(stack[0:len(stack) - (len(n_JoinOperator.Conditions) - 1 - i)], PKr(n_JoinOperator.Conditions, 0, Pre(n_JoinOperator.Right, trace))) == Pre(old(n), Seq_Node.empty)
//@   invariant walkWFL(stack, len(stack)) && walkWFL(n_JoinOperator.Conditions, len(n_JoinOperator.Conditions))
//@   invariant stackSize(stack) == stackSize(stack[0:len(stack) - (len(n_JoinOperator.Conditions) - 1 - i)]) + lsizeFrom(n_JoinOperator.Conditions, i + 1)
//@   invariant stackSize(stack[0:len(stack) - (len(n_JoinOperator.Conditions) - 1 - i)]) + lsizeFrom(n_JoinOperator.Conditions, 0) + size(n_JoinOperator.Right) < variant(1)
//@   decreases i + 1
//@ loop 10
//@   invariant -1 <= i && i < len(n_InExpr.Vals) && 0 <= len(stack) - (len(n_InExpr.Vals) - 1 - i)
//@   invariant forallS(t, "Seq_Node", PreS(stack, t) == PreS(stack[0:len(stack) - (len(n_InExpr.Vals) - 1 - i)], PKr(n_InExpr.Vals, i + 1, t)))
//@   invariant PreS(stack[0:len(stack) - (len(n_InExpr.Vals) - 1 - i)], PKr(n_InExpr.Vals, 0, Pre(n_InExpr.X, trace))) == Pre(old(n), Seq_Node.empty)
//@   invariant walkWFL(stack, len(stack)) && walkWFL(n_InExpr.Vals, len(n_InExpr.Vals))
//@   invariant stackSize(stack) == stackSize(stack[0:len(stack) - (len(n_InExpr.Vals) - 1 - i)]) + lsizeFrom(n_InExpr.Vals, i + 1)
//@   invariant stackSize(stack[0:len(stack) - (len(n_InExpr.Vals) - 1 - i)]) + lsizeFrom(n_InExpr.Vals, 0) + size(n_InExpr.X) < variant(1)
//@   decreases i + 1
//@ loop 11
//@   invariant -1 <= i && i < len(n_CallExpr.Args) && 0 <= len(stack) - (len(n_CallExpr.Args) - 1 - i)
//@   invariant forallS(t, "Seq_Node", PreS(stack, t) == PreS(stack[0:len(stack) - (len(n_CallExpr.Args) - 1 - i)], PKr(n_CallExpr.Args, i + 1, t)))
//@   invariant PreS(stack[0:len(stack) - (len(n_CallExpr.Args) - 1 - i)], PKr(n_CallExpr.Args, 0, trace)) == Pre(old(n), Seq_Node.empty)
//@   invariant walkWFL(stack, len(stack)) && walkWFL(n_CallExpr.Args, len(n_CallExpr.Args))
//@   invariant stackSize(stack) == stackSize(stack[0:len(stack) - (len(n_CallExpr.Args) - 1 - i)]) + lsizeFrom(n_CallExpr.Args, i + 1)
//@   invariant stackSize(stack[0:len(stack) - (len(n_CallExpr.Args) - 1 - i)]) + lsizeFrom(n_CallExpr.Args, 0) + 0 < variant(1)
//@   decreases i + 1
//@ loop 12
//@   invariant -1 <= i && i < len(n_RenderOperator.Props) && 0 <= len(stack) - pcountFrom(n_RenderOperator.Props, i + 1)
//@   invariant forallS(t, "Seq_Node", PreS(stack, t) == PreS(stack[0:len(stack) - pcountFrom(n_RenderOperator.Props, i + 1)], PKprops(n_RenderOperator.Props, i + 1, t)))
//@   invariant PreS(stack[0:len(stack) - pcountFrom(n_RenderOperator.Props, i + 1)], PKprops(n_RenderOperator.Props, 0, trace)) == Pre(old(n), Seq_Node.empty)
//@   invariant walkWFL(stack, len(stack)) && walkWFprops(n_RenderOperator.Props, len(n_RenderOperator.Props))
//@   invariant stackSize(stack) == stackSize(stack[0:len(stack) - pcountFrom(n_RenderOperator.Props, i + 1)]) + psizeFrom(n_RenderOperator.Props, i + 1)
//@   invariant stackSize(stack[0:len(stack) - pcountFrom(n_RenderOperator.Props, i + 1)]) + psizeFrom(n_RenderOperator.Props, 0) + 0 < variant(1)
//@   decreases i + 1

// ---------------------------------------------------------------- parser.go: cursor, errors, splits

//@ func parser.isNotFound
//@   use perr
//@   trusted errors.As(err, new(notFoundError)): follows Unwrap chains and the members of errors.Join (nf)
//@   ensures result == nf(err)

//@ func parser.makeErrorOpaque
//@   use perr
//@   trusted stores into the cloned slice of a joined error (outside the verified subset); its effect is: nil stays nil, anything else is no longer classified not-found
//@   ensures (result == nil) == (err == nil) && !nf(result)

//@ func parser.joinErrors
//@   use perr
//@   ensures (result == nil) == allNilL(args, len(args)) && nf(result) == nfL(args, len(args))
//@ loop 1
//@   invariant -1 <= rangeindex && rangeindex < len(args)
//@   invariant (len(errorList) == 0) == allNilL(args, rangeindex + 1)
//@   invariant nfL(errorList, len(errorList)) == nfL(args, rangeindex + 1)
//@   invariant noNilL(errorList, len(errorList))
//@   decreases len(args) - rangeindex

//@ func parser.(TokenKind).String
//@   trusted generated by stringer; returns some text

//@ func parser.formatToken
//@   use perr
//@   requires tokIn(source, tok)

//@ func parser.(*parser).next
//@   use perr
//@   requires p != nil && pOK(p.pos, len(p.tokens))
//@   ensures pOK(p.pos, len(p.tokens))
//@   ensures @some: result1 ==> old(p.pos) < len(p.tokens) && p.pos == old(p.pos) + 1 && result0 == p.tokens[old(p.pos)]
//@   ensures @eof: !result1 ==> old(p.pos) >= len(p.tokens) && p.pos == len(p.tokens) + 1 && result0 == eofToken(p.source)
//@   assigns p.pos

//@ func parser.(*parser).prev
//@   inline
//@   requires p != nil
//@   ensures p.pos == ite(old(p.pos) > 0 && old(p.pos) <= len(p.tokens), old(p.pos) - 1, old(p.pos))
//@   assigns p.pos

//@ func parser.(*parser).endSplit
//@   use perr
//@   requires p != nil && 0 <= p.pos && toksIn(p.source, p.tokens)
//@   ensures (result == nil) == (p.splitKind != 0 && p.pos >= len(p.tokens)) && !nf(result)

//@ func parser.(*parser).splitSemi
//@   use perr
//@   fresh
//@   requires p != nil && pOK(p.pos, len(p.tokens)) && p.pos <= len(p.tokens)
//@   ensures pOK(p.pos, len(p.tokens)) && old(p.pos) <= p.pos
//@   ensures @sub: result != nil && result >= old(alloc()) && result < alloc() && result.source == p.source && result.pos == 0 && result.splitKind == TokenSemi
//@   ensures @range: result.tokens == p.tokens[old(p.pos):cur(p.pos, len(p.tokens))]
//@   ensures @stop: p.pos < len(p.tokens) ==> p.tokens[p.pos].Kind == TokenSemi
//@   ensures @nosemi: forall(j, 0, len(result.tokens), result.tokens[j].Kind != TokenSemi)
//@   ensures @nosemiparent: forall(j, old(p.pos), cur(p.pos, len(p.tokens)), p.tokens[j].Kind != TokenSemi)
//@   assigns p.pos
//@ loop 1
//@   invariant pOK(p.pos, len(p.tokens)) && start <= p.pos && p.pos <= len(p.tokens)
//@   invariant forall(j, start, p.pos, p.tokens[j].Kind != TokenSemi)
//@   decreases len(p.tokens) + 1 - p.pos

//@ func parser.(*parser).split
//@   use perr
//@   fresh
//@   requires p != nil && pOK(p.pos, len(p.tokens)) && p.pos <= len(p.tokens)
//@   ensures pOK(p.pos, len(p.tokens)) && old(p.pos) <= p.pos
//@   ensures @sub: result != nil && result >= old(alloc()) && result < alloc() && result.source == p.source && result.pos == 0 && result.splitKind == search
//@   ensures @range: result.tokens == p.tokens[old(p.pos):cur(p.pos, len(p.tokens))]
//@   assigns p.pos
//@ loop 1
//@   invariant pOK(p.pos, len(p.tokens)) && start <= p.pos && p.pos <= len(p.tokens)
//@   decreases len(p.tokens) + 1 - p.pos
//@ loop 2
//@   invariant pOK(p.pos, len(p.tokens)) && start <= p.pos && p.pos <= len(p.tokens)
//@   decreases len(stack)

//@ func parser.(*parser).ident
//@   use perr exprwf exprok yield
//@   requires p != nil && pOK(p.pos, len(p.tokens)) && toksIn(p.source, p.tokens)
//@   ensures pOK(p.pos, len(p.tokens))
//@   ensures @notfound: result1 != nil ==> result0 == nil && nf(result1) && cur(p.pos, len(p.tokens)) == old(cur(p.pos, len(p.tokens)))
//@   ensures @found: result1 == nil ==> typeis(result0, "Ident") && old(p.pos) < len(p.tokens) && p.pos == old(p.pos) + 1 && (p.tokens[old(p.pos)].Kind == TokenIdentifier || p.tokens[old(p.pos)].Kind == TokenQuotedIdentifier)
//@   ensures @span: result1 == nil ==> identOK(p.source, result0)
//@   ensures @fields: result1 == nil ==> result0.Name == p.tokens[old(p.pos)].Value && result0.NameSpan == p.tokens[old(p.pos)].Span && result0.Quoted == (p.tokens[old(p.pos)].Kind == TokenQuotedIdentifier)
//@   ensures @count: result1 == nil ==> ntok(result0) == 1 && slack(result0) == 0
//@   assigns p.pos

// ---------------------------------------------------------------- parser.go: expressions

//@ func parser.operatorPrecedence
//@   use perr
//@   ensures result == opPrec(op)

//@ func parser.(*parser).qualifiedIdent
//@   use perr exprwf exprok yield
//@   requires p != nil && pOK(p.pos, len(p.tokens)) && toksIn(p.source, p.tokens)
//@   ensures pOK(p.pos, len(p.tokens)) && old(cur(p.pos, len(p.tokens))) <= cur(p.pos, len(p.tokens))
//@   ensures @notfound: nf(result1) ==> cur(p.pos, len(p.tokens)) == old(cur(p.pos, len(p.tokens))) && result0 == nil
//@   ensures @wf: result1 == nil ==> exprOK(p.source, result0) && typeis(result0, "QualifiedIdent")
//@   ensures @progress: result1 == nil ==> old(cur(p.pos, len(p.tokens))) < cur(p.pos, len(p.tokens))
//@   ensures @count: result1 == nil ==> cur(p.pos, len(p.tokens)) - old(cur(p.pos, len(p.tokens))) == ntok(result0) && slack(result0) == 0
//@   assigns p.pos
//@ loop 1
//@   invariant ntokL(qid.Parts, len(qid.Parts)) == len(qid.Parts) && slackL(qid.Parts, len(qid.Parts)) == 0 && cur(p.pos, len(p.tokens)) - old(cur(p.pos, len(p.tokens))) == 2*len(qid.Parts) - 1
//@   invariant pOK(p.pos, len(p.tokens)) && old(cur(p.pos, len(p.tokens))) < cur(p.pos, len(p.tokens))
//@   invariant len(qid.Parts) > 0 && identsOK(p.source, qid.Parts, len(qid.Parts))
//@   decreases len(p.tokens) + 1 - p.pos

//@ func parser.(*parser).innerPrimaryExpr
//@   use perr exprwf exprok yield
//@   requires p != nil && pOK(p.pos, len(p.tokens)) && toksIn(p.source, p.tokens)
//@   ensures pOK(p.pos, len(p.tokens)) && old(cur(p.pos, len(p.tokens))) <= cur(p.pos, len(p.tokens))
//@   ensures @progress: result1 == nil ==> old(cur(p.pos, len(p.tokens))) < cur(p.pos, len(p.tokens))
//@   ensures @notfound: nf(result1) ==> cur(p.pos, len(p.tokens)) == old(cur(p.pos, len(p.tokens)))
//@   ensures @wf: result1 == nil ==> exprOK(p.source, result0)
//@   ensures @primary: primaryShape(result0)
//@   ensures @count: result1 == nil ==> within(cur(p.pos, len(p.tokens)) - old(cur(p.pos, len(p.tokens))), ntok(result0), slack(result0))
//@   assigns p.pos
//@   decreases remTok(p.pos, len(p.tokens)), 2

//@ func parser.(*parser).primaryExpr
//@   use perr exprwf exprok yield
//@   requires p != nil && pOK(p.pos, len(p.tokens)) && toksIn(p.source, p.tokens)
//@   ensures pOK(p.pos, len(p.tokens)) && old(cur(p.pos, len(p.tokens))) <= cur(p.pos, len(p.tokens))
//@   ensures @progress: result1 == nil ==> old(cur(p.pos, len(p.tokens))) < cur(p.pos, len(p.tokens))
//@   ensures @notfound: nf(result1) ==> cur(p.pos, len(p.tokens)) == old(cur(p.pos, len(p.tokens)))
//@   ensures @wf: result1 == nil ==> exprOK(p.source, result0)
//@   ensures @primary: primaryShape(result0)
//@   ensures @count: result1 == nil ==> within(cur(p.pos, len(p.tokens)) - old(cur(p.pos, len(p.tokens))), ntok(result0), slack(result0))
//@   assigns p.pos
//@   decreases remTok(p.pos, len(p.tokens)), 3

//@ func parser.(*parser).unaryExpr
//@   use perr exprwf exprok yield
//@   requires p != nil && pOK(p.pos, len(p.tokens)) && toksIn(p.source, p.tokens)
//@   ensures pOK(p.pos, len(p.tokens)) && old(cur(p.pos, len(p.tokens))) <= cur(p.pos, len(p.tokens))
//@   ensures @progress: result1 == nil ==> old(cur(p.pos, len(p.tokens))) < cur(p.pos, len(p.tokens))
//@   ensures @notfound: nf(result1) ==> cur(p.pos, len(p.tokens)) == old(cur(p.pos, len(p.tokens)))
//@   ensures @wf: result1 == nil ==> exprOK(p.source, result0)
//@   ensures @atomic: leftPrec(result0) == 9 && rightPrec(result0) == 9
//@   ensures @count: result1 == nil ==> within(cur(p.pos, len(p.tokens)) - old(cur(p.pos, len(p.tokens))), ntok(result0), slack(result0))
//@   assigns p.pos
//@   decreases remTok(p.pos, len(p.tokens)), 4

//@ func parser.(*parser).expr
//@   use perr exprwf exprok yield
//@   requires p != nil && pOK(p.pos, len(p.tokens)) && toksIn(p.source, p.tokens)
//@   ensures pOK(p.pos, len(p.tokens)) && old(cur(p.pos, len(p.tokens))) <= cur(p.pos, len(p.tokens))
//@   ensures @progress: result1 == nil ==> old(cur(p.pos, len(p.tokens))) < cur(p.pos, len(p.tokens))
//@   ensures @notfound: nf(result1) ==> cur(p.pos, len(p.tokens)) == old(cur(p.pos, len(p.tokens)))
//@   ensures @wf: result1 == nil ==> exprOK(p.source, result0)
//@   ensures @count: result1 == nil ==> within(cur(p.pos, len(p.tokens)) - old(cur(p.pos, len(p.tokens))), ntok(result0), slack(result0))
//@   assigns p.pos
//@   decreases remTok(p.pos, len(p.tokens)), 6

//@ func parser.(*parser).exprBinaryTrail
//@   use perr exprwf exprok yield
//@   requires p != nil && pOK(p.pos, len(p.tokens)) && toksIn(p.source, p.tokens) && minPrecedence >= 0
//@   ensures pOK(p.pos, len(p.tokens)) && old(cur(p.pos, len(p.tokens))) <= cur(p.pos, len(p.tokens))
//@   ensures @notfound: !nf(result1)
//@   ensures @wf: result1 == nil && exprOK(p.source, x) && old(nextPrec(p.tokens, p.pos)) <= leftPrec(x) ==> exprOK(p.source, result0)
//@   ensures @prec: result1 == nil && exprOK(p.source, x) && old(nextPrec(p.tokens, p.pos)) <= leftPrec(x) ==> nextPrec(p.tokens, p.pos) < minPrecedence && leftPrec(result0) >= min(leftPrec(x), minPrecedence) && rightPrec(result0) >= min(rightPrec(x), minPrecedence)
//@   ensures @progress: old(nextPrec(p.tokens, p.pos)) >= 0 && old(nextPrec(p.tokens, p.pos)) >= minPrecedence ==> cur(p.pos, len(p.tokens)) > old(cur(p.pos, len(p.tokens)))
//@   ensures @count: result1 == nil ==> within(cur(p.pos, len(p.tokens)) - old(cur(p.pos, len(p.tokens))), ntok(result0) - ntok(x), slack(result0) - slack(x))
//@   assigns p.pos
//@   decreases remTok(p.pos, len(p.tokens)), 5
//@ loop 1
//@   invariant finalError == nil ==> within(cur(p.pos, len(p.tokens)) - old(cur(p.pos, len(p.tokens))), ntok(x) - ntok(old(x)), slack(x) - slack(old(x)))
//@   invariant pOK(p.pos, len(p.tokens)) && old(cur(p.pos, len(p.tokens))) <= cur(p.pos, len(p.tokens)) && !nf(finalError)
//@   invariant finalError == nil && exprOK(p.source, old(x)) && old(nextPrec(p.tokens, p.pos)) <= leftPrec(old(x)) ==> exprOK(p.source, x) && nextPrec(p.tokens, p.pos) <= leftPrec(x) && leftPrec(x) >= min(leftPrec(old(x)), minPrecedence) && rightPrec(x) >= min(rightPrec(old(x)), minPrecedence)
//@   invariant old(nextPrec(p.tokens, p.pos)) >= 0 && old(nextPrec(p.tokens, p.pos)) >= minPrecedence ==> cur(p.pos, len(p.tokens)) > old(cur(p.pos, len(p.tokens))) || p.pos == old(p.pos)
//@   decreases len(p.tokens) + 1 - p.pos
//@ loop 2
//@   invariant finalError == nil ==> within(cur(p.pos, len(p.tokens)) - old(cur(p.pos, len(p.tokens))), ntok(x) - ntok(old(x)) + 1 + ntok(y), slack(x) - slack(old(x)) + slack(y))
//@   invariant pOK(p.pos, len(p.tokens)) && old(cur(p.pos, len(p.tokens))) < cur(p.pos, len(p.tokens)) && !nf(finalError)
//@   invariant finalError == nil && exprOK(p.source, old(x)) && old(nextPrec(p.tokens, p.pos)) <= leftPrec(old(x)) ==> exprOK(p.source, x) && exprOK(p.source, y) && leftPrec(x) >= precedence1 && rightPrec(y) > precedence1 && leftPrec(y) > precedence1 && nextPrec(p.tokens, p.pos) <= leftPrec(y)
//@   invariant precedence1 == opPrec(op1.Kind) && precedence1 >= minPrecedence && op1.Kind != TokenIn && tokIn(p.source, op1)
//@   invariant len(p.tokens) + 1 - p.pos < variant(1)
//@   decreases remTok(p.pos, len(p.tokens))

//@ func parser.(*parser).exprList
//@   use perr exprwf exprok yield
//@   requires p != nil && pOK(p.pos, len(p.tokens)) && toksIn(p.source, p.tokens)
//@   ensures pOK(p.pos, len(p.tokens)) && old(cur(p.pos, len(p.tokens))) <= cur(p.pos, len(p.tokens))
//@   ensures @notfound: nf(result1) ==> cur(p.pos, len(p.tokens)) == old(cur(p.pos, len(p.tokens))) && len(result0) == 0
//@   ensures @wf: result1 == nil ==> len(result0) >= 1 && exprsOK(p.source, result0, len(result0))
//@   ensures @progress: result1 == nil ==> old(cur(p.pos, len(p.tokens))) < cur(p.pos, len(p.tokens))
//@   ensures @count: result1 == nil ==> within(cur(p.pos, len(p.tokens)) - old(cur(p.pos, len(p.tokens))), ntokL(result0, len(result0)) + len(result0) - 1, slackL(result0, len(result0)))
//@   assigns p.pos
//@   decreases remTok(p.pos, len(p.tokens)), 7
//@ loop 1
//@   invariant within(cur(p.pos, len(p.tokens)) - old(cur(p.pos, len(p.tokens))), ntokL(result, len(result)) + len(result) - 1, slackL(result, len(result)))
//@   invariant pOK(p.pos, len(p.tokens)) && old(cur(p.pos, len(p.tokens))) < cur(p.pos, len(p.tokens))
//@   invariant len(result) >= 1 && exprsOK(p.source, result, len(result))
//@   decreases len(p.tokens) + 1 - p.pos

// ---------------------------------------------------------------- parser.go: tabular operators

//@ func parser.(*BasicLit).IsFloat
//@   requires lit != nil
//@   ensures result == (lit.Kind == TokenNumber && strings.ContainsAny(lit.Value, ".eE"))

//@ func parser.(*BasicLit).IsInteger
//@   requires lit != nil
//@   ensures result == (lit.Kind == TokenNumber && !strings.ContainsAny(lit.Value, ".eE"))

//@ func parser.(*parser).rowCount
//@   use perr exprwf exprok pwf yield
//@   hide expr
//@   requires p != nil && pOK(p.pos, len(p.tokens)) && toksIn(p.source, p.tokens)
//@   ensures pOK(p.pos, len(p.tokens)) && old(cur(p.pos, len(p.tokens))) <= cur(p.pos, len(p.tokens))
//@   ensures @notfound: nf(result1) ==> cur(p.pos, len(p.tokens)) == old(cur(p.pos, len(p.tokens)))
//@   ensures @wf: result1 == nil ==> exprOK(p.source, result0)
//@   ensures @integer: result1 == nil ==> rowCountOK(result0)
//@   ensures @count: result1 == nil ==> within(cur(p.pos, len(p.tokens)) - old(cur(p.pos, len(p.tokens))), ntok(result0), slack(result0))
//@   assigns p.pos

//@ func parser.(*parser).sortTerm
//@   keywords asc desc nulls first last
//@   use perr exprwf exprok pwf yield
//@   hide expr
//@   requires p != nil && pOK(p.pos, len(p.tokens)) && toksIn(p.source, p.tokens)
//@   ensures pOK(p.pos, len(p.tokens)) && old(cur(p.pos, len(p.tokens))) <= cur(p.pos, len(p.tokens))
//@   ensures @notfound: nf(result1) ==> cur(p.pos, len(p.tokens)) == old(cur(p.pos, len(p.tokens))) && result0 == nil
//@   ensures @wf: result1 == nil ==> typeis(result0, "SortTerm") && exprOK(p.source, result0.X) && old(cur(p.pos, len(p.tokens))) < cur(p.pos, len(p.tokens))
//@   ensures @defaults: result1 == nil && !spanValid(result0.AscDescSpan) && !spanValid(result0.NullsSpan) ==> !result0.Asc && !result0.NullsFirst
//@   ensures @ascnulls: result1 == nil && spanValid(result0.AscDescSpan) && !spanValid(result0.NullsSpan) ==> result0.NullsFirst == result0.Asc
//@   ensures @ok.nulls: result1 == nil && spanValid(term.NullsSpan) ==> tok.Value == "nulls" && term.NullsSpan.Start == tok.Span.Start && term.NullsSpan.End == tok2.Span.End && term.NullsFirst == (tok2.Value == "first") && (tok2.Value == "first" || tok2.Value == "last")
//@   ensures @count: result1 == nil ==> within(cur(p.pos, len(p.tokens)) - old(cur(p.pos, len(p.tokens))), ntok(result0), slack(result0))
//@   assigns p.pos

//@ func parser.(*parser).countOperator
//@   use perr exprwf exprok pwf yield
//@   hide expr
//@   requires p != nil && pOK(p.pos, len(p.tokens)) && toksIn(p.source, p.tokens) && tokIn(p.source, pipe) && tokIn(p.source, keyword)
//@   ensures pOK(p.pos, len(p.tokens)) && old(cur(p.pos, len(p.tokens))) <= cur(p.pos, len(p.tokens))
//@   ensures @notfound: !nf(result1)
//@   ensures @wf: result1 == nil ==> pipeOpWF(p.source, result0) && nodeOK(result0)
//@   ensures @count: result1 == nil ==> within(cur(p.pos, len(p.tokens)) - old(cur(p.pos, len(p.tokens))) + 2, ntok(result0), slack(result0))
//@   assigns p.pos

//@ func parser.(*parser).whereOperator
//@   use perr exprwf exprok pwf yield
//@   hide expr
//@   requires p != nil && pOK(p.pos, len(p.tokens)) && toksIn(p.source, p.tokens) && tokIn(p.source, pipe) && tokIn(p.source, keyword)
//@   ensures pOK(p.pos, len(p.tokens)) && old(cur(p.pos, len(p.tokens))) <= cur(p.pos, len(p.tokens))
//@   ensures @notfound: !nf(result1)
//@   ensures @wf: result1 == nil ==> pipeOpWF(p.source, result0) && nodeOK(result0)
//@   ensures @count: result1 == nil ==> within(cur(p.pos, len(p.tokens)) - old(cur(p.pos, len(p.tokens))) + 2, ntok(result0), slack(result0))
//@   assigns p.pos

//@ func parser.(*parser).sortOperator
//@   use perr exprwf exprok pwf yield
//@   hide expr
//@   requires p != nil && pOK(p.pos, len(p.tokens)) && toksIn(p.source, p.tokens) && tokIn(p.source, pipe) && tokIn(p.source, keyword)
//@   ensures pOK(p.pos, len(p.tokens)) && old(cur(p.pos, len(p.tokens))) <= cur(p.pos, len(p.tokens))
//@   ensures @notfound: !nf(result1)
//@   ensures @wf: result1 == nil ==> pipeOpWF(p.source, result0) && nodeOK(result0)
//@   ensures @count: result1 == nil ==> within(cur(p.pos, len(p.tokens)) - old(cur(p.pos, len(p.tokens))) + 2, ntok(result0), slack(result0))
//@   assigns p.pos
//@ loop 1
//@   invariant within(cur(p.pos, len(p.tokens)) - old(cur(p.pos, len(p.tokens))), 1 + ntokL(op.Terms, len(op.Terms)) + len(op.Terms), slackL(op.Terms, len(op.Terms)))
//@   invariant pOK(p.pos, len(p.tokens)) && old(cur(p.pos, len(p.tokens))) <= cur(p.pos, len(p.tokens))
//@   invariant typeis(op, "SortOperator") && termsWF(op.Terms, len(op.Terms)) && nodeOKList(op.Terms, len(op.Terms))
//@   decreases len(p.tokens) + 1 - p.pos

//@ func parser.(*parser).takeOperator
//@   use perr exprwf exprok pwf yield
//@   hide expr
//@   requires p != nil && pOK(p.pos, len(p.tokens)) && toksIn(p.source, p.tokens) && tokIn(p.source, pipe) && tokIn(p.source, keyword)
//@   ensures pOK(p.pos, len(p.tokens)) && old(cur(p.pos, len(p.tokens))) <= cur(p.pos, len(p.tokens))
//@   ensures @notfound: !nf(result1)
//@   ensures @wf: result1 == nil ==> pipeOpWF(p.source, result0) && nodeOK(result0)
//@   ensures @count: result1 == nil ==> within(cur(p.pos, len(p.tokens)) - old(cur(p.pos, len(p.tokens))) + 2, ntok(result0), slack(result0))
//@   assigns p.pos

//@ func parser.(*parser).topOperator
//@   use perr exprwf exprok pwf yield
//@   hide expr
//@   requires p != nil && pOK(p.pos, len(p.tokens)) && toksIn(p.source, p.tokens) && tokIn(p.source, pipe) && tokIn(p.source, keyword)
//@   ensures pOK(p.pos, len(p.tokens)) && old(cur(p.pos, len(p.tokens))) <= cur(p.pos, len(p.tokens))
//@   ensures @notfound: !nf(result1)
//@   ensures @wf: result1 == nil ==> pipeOpWF(p.source, result0) && nodeOK(result0)
//@   ensures @count: result1 == nil ==> within(cur(p.pos, len(p.tokens)) - old(cur(p.pos, len(p.tokens))) + 2, ntok(result0), slack(result0))
//@   assigns p.pos

//@ func parser.(*parser).extendOperator
//@   use perr exprwf exprok pwf yield
//@   hide expr
//@   requires p != nil && pOK(p.pos, len(p.tokens)) && toksIn(p.source, p.tokens) && tokIn(p.source, pipe) && tokIn(p.source, keyword)
//@   ensures pOK(p.pos, len(p.tokens)) && old(cur(p.pos, len(p.tokens))) <= cur(p.pos, len(p.tokens))
//@   ensures @notfound: !nf(result1)
//@   ensures @wf: result1 == nil ==> pipeOpWF(p.source, result0) && nodeOK(result0)
//@   ensures @count: result1 == nil ==> within(cur(p.pos, len(p.tokens)) - old(cur(p.pos, len(p.tokens))) + 2, ntok(result0), slack(result0))
//@   assigns p.pos
//@ loop 1
//@   invariant within(cur(p.pos, len(p.tokens)) - old(cur(p.pos, len(p.tokens))), ntokL(op.Cols, len(op.Cols)) + len(op.Cols), slackL(op.Cols, len(op.Cols)))
//@   invariant pOK(p.pos, len(p.tokens)) && old(cur(p.pos, len(p.tokens))) <= cur(p.pos, len(p.tokens))
//@   invariant extColsWF(p.source, op.Cols, len(op.Cols)) && nodeOKList(op.Cols, len(op.Cols))
//@   decreases len(p.tokens) + 1 - p.pos

//@ func parser.(*parser).extendColumn
//@   use perr exprwf exprok pwf yield
//@   hide expr
//@   requires p != nil && pOK(p.pos, len(p.tokens)) && toksIn(p.source, p.tokens)
//@   ensures pOK(p.pos, len(p.tokens)) && old(cur(p.pos, len(p.tokens))) <= cur(p.pos, len(p.tokens))
//@   ensures @notfound: nf(result1) ==> cur(p.pos, len(p.tokens)) == old(cur(p.pos, len(p.tokens)))
//@   ensures @wf: result1 == nil ==> typeis(result0, "ExtendColumn") && exprOK(p.source, result0.X) && (typeis(result0.Name, "Ident") || result0.Name == nil) && nodeOK(result0) && old(cur(p.pos, len(p.tokens))) < cur(p.pos, len(p.tokens))
//@   ensures @count: result1 == nil ==> within(cur(p.pos, len(p.tokens)) - old(cur(p.pos, len(p.tokens))), ntok(result0), slack(result0))
//@   assigns p.pos

//@ func parser.(*parser).summarizeColumn
//@   use perr exprwf exprok pwf yield
//@   hide expr
//@   requires p != nil && pOK(p.pos, len(p.tokens)) && toksIn(p.source, p.tokens)
//@   ensures pOK(p.pos, len(p.tokens)) && old(cur(p.pos, len(p.tokens))) <= cur(p.pos, len(p.tokens))
//@   ensures @notfound: nf(result1) ==> cur(p.pos, len(p.tokens)) == old(cur(p.pos, len(p.tokens)))
//@   ensures @wf: result1 == nil ==> typeis(result0, "SummarizeColumn") && exprOK(p.source, result0.X) && (typeis(result0.Name, "Ident") || result0.Name == nil) && nodeOK(result0) && old(cur(p.pos, len(p.tokens))) < cur(p.pos, len(p.tokens))
//@   ensures @count: result1 == nil ==> within(cur(p.pos, len(p.tokens)) - old(cur(p.pos, len(p.tokens))), ntok(result0), slack(result0))
//@   assigns p.pos

//@ func parser.(*parser).summarizeOperator
//@   use perr exprwf exprok pwf yield
//@   hide expr
//@   requires p != nil && pOK(p.pos, len(p.tokens)) && toksIn(p.source, p.tokens) && tokIn(p.source, pipe) && tokIn(p.source, keyword)
//@   ensures pOK(p.pos, len(p.tokens)) && old(cur(p.pos, len(p.tokens))) <= cur(p.pos, len(p.tokens))
//@   ensures @notfound: !nf(result1)
//@   ensures @wf: result1 == nil ==> pipeOpWF(p.source, result0) && nodeOK(result0)
//@   ensures @count: result1 == nil ==> within(cur(p.pos, len(p.tokens)) - old(cur(p.pos, len(p.tokens))) + 2, ntok(result0), slack(result0))
//@   assigns p.pos
//@ loop 1
//@   invariant !spanValid(op.By) && within(cur(p.pos, len(p.tokens)) - old(cur(p.pos, len(p.tokens))), ntokL(op.Cols, len(op.Cols)) + len(op.Cols), slackL(op.Cols, len(op.Cols)))
//@   invariant pOK(p.pos, len(p.tokens)) && old(cur(p.pos, len(p.tokens))) <= cur(p.pos, len(p.tokens))
//@   invariant sumColsWF(p.source, op.Cols, len(op.Cols)) && nodeOKList(op.Cols, len(op.Cols)) && len(op.GroupBy) == 0
//@   decreases len(p.tokens) + 1 - p.pos
//@ loop 2
//@   invariant spanValid(op.By) && within(cur(p.pos, len(p.tokens)) - old(cur(p.pos, len(p.tokens))), ntokL(op.Cols, len(op.Cols)) + sepc(len(op.Cols)) + 1 + ntokL(op.GroupBy, len(op.GroupBy)) + len(op.GroupBy), ite(len(op.Cols) >= 1, 1, 0) + slackL(op.Cols, len(op.Cols)) + slackL(op.GroupBy, len(op.GroupBy)))
//@   invariant pOK(p.pos, len(p.tokens)) && old(cur(p.pos, len(p.tokens))) <= cur(p.pos, len(p.tokens))
//@   invariant sumColsWF(p.source, op.Cols, len(op.Cols)) && nodeOKList(op.Cols, len(op.Cols))
//@   invariant sumColsWF(p.source, op.GroupBy, len(op.GroupBy)) && nodeOKList(op.GroupBy, len(op.GroupBy))
//@   decreases len(p.tokens) + 1 - p.pos

//@ func parser.(*parser).asOperator
//@   use perr exprwf exprok pwf yield
//@   hide expr
//@   requires p != nil && pOK(p.pos, len(p.tokens)) && toksIn(p.source, p.tokens) && tokIn(p.source, pipe) && tokIn(p.source, keyword)
//@   ensures pOK(p.pos, len(p.tokens)) && old(cur(p.pos, len(p.tokens))) <= cur(p.pos, len(p.tokens))
//@   ensures @notfound: !nf(result1)
//@   ensures @wf: result1 == nil ==> pipeOpWF(p.source, result0) && nodeOK(result0)
//@   ensures @count: result1 == nil ==> within(cur(p.pos, len(p.tokens)) - old(cur(p.pos, len(p.tokens))) + 2, ntok(result0), slack(result0))
//@   assigns p.pos

//@ func parser.(*parser).renderProperty
//@   use perr exprwf exprok pwf yield
//@   hide expr
//@   requires p != nil && pOK(p.pos, len(p.tokens)) && toksIn(p.source, p.tokens)
//@   ensures pOK(p.pos, len(p.tokens)) && old(cur(p.pos, len(p.tokens))) <= cur(p.pos, len(p.tokens))
//@   ensures @wf: result1 == nil ==> typeis(result0, "RenderProperty") && typeis(result0.Name, "Ident") && exprOK(p.source, result0.Value) && propOK(result0) && old(cur(p.pos, len(p.tokens))) < cur(p.pos, len(p.tokens))
//@   ensures @count: result1 == nil ==> within(cur(p.pos, len(p.tokens)) - old(cur(p.pos, len(p.tokens))), ntok(result0), slack(result0))
//@   assigns p.pos

//@ func parser.(*parser).renderOperator
//@   keywords with
//@   use perr exprwf exprok pwf yield
//@   hide expr
//@   requires p != nil && pOK(p.pos, len(p.tokens)) && toksIn(p.source, p.tokens) && tokIn(p.source, pipe) && tokIn(p.source, keyword)
//@   ensures pOK(p.pos, len(p.tokens)) && old(cur(p.pos, len(p.tokens))) <= cur(p.pos, len(p.tokens))
//@   ensures @notfound: !nf(result1)
//@   ensures @wf: result1 == nil ==> pipeOpWF(p.source, result0) && nodeOK(result0)
//@   ensures @count: result1 == nil ==> within(cur(p.pos, len(p.tokens)) - old(cur(p.pos, len(p.tokens))) + 2, ntok(result0), slack(result0))
//@   assigns p.pos
//@ loop 1
//@   invariant spanValid(op.With) && within(cur(p.pos, len(p.tokens)) - old(cur(p.pos, len(p.tokens))), 3 + ntokL(op.Props, len(op.Props)) + len(op.Props), slackL(op.Props, len(op.Props)))
//@   invariant pOK(p.pos, len(p.tokens)) && old(cur(p.pos, len(p.tokens))) <= cur(p.pos, len(p.tokens))
//@   invariant typeis(op.ChartType, "Ident") && propsWF(op.Props, len(op.Props)) && propsOKList(op.Props, len(op.Props))
//@   decreases len(p.tokens) + 1 - p.pos

//@ func parser.(*parser).projectOperator
//@   use perr exprwf exprok pwf yield
//@   hide expr
//@   requires p != nil && pOK(p.pos, len(p.tokens)) && toksIn(p.source, p.tokens) && tokIn(p.source, pipe) && tokIn(p.source, keyword)
//@   ensures pOK(p.pos, len(p.tokens)) && old(cur(p.pos, len(p.tokens))) <= cur(p.pos, len(p.tokens))
//@   ensures @notfound: !nf(result1)
//@   ensures @wf: result1 == nil ==> pipeOpWF(p.source, result0) && nodeOK(result0)
//@   ensures @count: result1 == nil ==> within(cur(p.pos, len(p.tokens)) - old(cur(p.pos, len(p.tokens))) + 2, ntok(result0), slack(result0))
//@   assigns p.pos
//@ loop 1
//@   invariant within(cur(p.pos, len(p.tokens)) - old(cur(p.pos, len(p.tokens))), ntokL(op.Cols, len(op.Cols)) + len(op.Cols), slackL(op.Cols, len(op.Cols)))
//@   invariant pOK(p.pos, len(p.tokens)) && old(cur(p.pos, len(p.tokens))) <= cur(p.pos, len(p.tokens))
//@   invariant projColsWF(op.Cols, len(op.Cols)) && nodeOKList(op.Cols, len(op.Cols))
//@   decreases len(p.tokens) + 1 - p.pos

//@ func parser.(*parser).joinOperator
//@   tablekeys joinTypes inner innerunique leftouter
//@   keywords kind on
//@   use perr exprwf exprok pwf yield
//@   hide expr
//@   requires p != nil && pOK(p.pos, len(p.tokens)) && toksIn(p.source, p.tokens) && tokIn(p.source, pipe) && tokIn(p.source, keyword)
//@   ensures pOK(p.pos, len(p.tokens)) && old(cur(p.pos, len(p.tokens))) <= cur(p.pos, len(p.tokens))
//@   ensures @notfound: !nf(result1)
//@   ensures @wf: result1 == nil ==> pipeOpWF(p.source, result0) && nodeOK(result0)
//@   ensures @count: result1 == nil ==> within(cur(p.pos, len(p.tokens)) - old(cur(p.pos, len(p.tokens))) + 2, ntok(result0), slack(result0))
//@   assigns p.pos
//@   decreases remTok(p.pos, len(p.tokens)), 8

//@ func parser.(*parser).tabularExpr
//@   keywords count where filter sort order take limit top project extend summarize join as render
//@   synonyms where=filter sort=order take=limit
//@   use perr exprwf exprok pwf yield
//@   hide expr
//@   requires p != nil && pOK(p.pos, len(p.tokens)) && toksIn(p.source, p.tokens)
//@   ensures pOK(p.pos, len(p.tokens)) && old(cur(p.pos, len(p.tokens))) <= cur(p.pos, len(p.tokens))
//@   ensures @notfound: nf(result1) ==> cur(p.pos, len(p.tokens)) == old(cur(p.pos, len(p.tokens))) && result0 == nil
//@   ensures @wf: result1 == nil ==> tabWF(p.source, result0) && nodeOK(result0)
//@   ensures @count: result1 == nil ==> within(cur(p.pos, len(p.tokens)) - old(cur(p.pos, len(p.tokens))), ntok(result0), slack(result0))
//@   assigns p.pos
//@   decreases remTok(p.pos, len(p.tokens)), 9
//@ loop 1
//@   invariant finalError == nil ==> within(cur(p.pos, len(p.tokens)) - old(cur(p.pos, len(p.tokens))), 1 + ntokL(expr.Operators, len(expr.Operators)), slackL(expr.Operators, len(expr.Operators)))
//@   invariant pOK(p.pos, len(p.tokens)) && old(cur(p.pos, len(p.tokens))) < cur(p.pos, len(p.tokens)) && !nf(finalError)
//@   invariant typeis(expr, "TabularExpr") && srcWF(expr.Source) && nodeOK(expr.Source)
//@   invariant finalError == nil ==> opsWFL(p.source, expr.Operators, len(expr.Operators)) && nodeOKList(expr.Operators, len(expr.Operators))
//@   decreases len(p.tokens) + 1 - p.pos

//@ func parser.(*parser).letStatement
//@   keywords let
//@   use perr exprwf exprok pwf yield
//@   hide expr
//@   requires p != nil && pOK(p.pos, len(p.tokens)) && toksIn(p.source, p.tokens)
//@   ensures pOK(p.pos, len(p.tokens)) && old(cur(p.pos, len(p.tokens))) <= cur(p.pos, len(p.tokens))
//@   ensures @notfound: nf(result1) ==> cur(p.pos, len(p.tokens)) == old(cur(p.pos, len(p.tokens))) && result0 == nil
//@   ensures @wf: result1 == nil ==> typeis(result0, "LetStatement") && typeis(result0.Name, "Ident") && exprOK(p.source, result0.X) && shapeOK(result0) && walkWF(result0)
//@   ensures @count: result1 == nil ==> within(cur(p.pos, len(p.tokens)) - old(cur(p.pos, len(p.tokens))), ntok(result0), slack(result0))
//@   assigns p.pos

// ---------------------------------------------------------------- parser.go: Parse

//@ func parser.firstParse
//@   inline

//@ func parser.Parse
//@   use perr exprwf exprok pwf yield lexwf
//@   hide expr lex
//@   function parseOf
//@   ensures @wf: result1 == nil ==> stmtsWF(query, result0, len(result0))
//@   ensures @shape: result1 == nil ==> shapeOKList(result0, len(result0))
//@   ensures @walkable: result1 == nil ==> walkWFL(result0, len(result0))
//@   ensures @count: result1 == nil ==> within(len(scanOf(query)), ntokL(result0, len(result0)) + nsemiT(scanOf(query), len(scanOf(query))), slackL(result0, len(result0)))
//@ loop 1
//@   invariant p != nil && p.source == query && toksIn(query, p.tokens) && pOK(p.pos, len(p.tokens)) && p.pos <= len(p.tokens)
//@   invariant resultError == nil ==> stmtsWF(query, result, len(result)) && shapeOKList(result, len(result)) && walkWFL(result, len(result))
//@   invariant p.tokens == scanOf(query)
//@   invariant resultError == nil ==> within(p.pos, ntokL(result, len(result)) + nsemiT(p.tokens, p.pos), slackL(result, len(result)))
//@   invariant forall(r, 0, old(alloc()), fieldheap("parser", "pos")[r] == old(fieldheap("parser", "pos"))[r])
//@   invariant forall(r, 0, old(alloc()), fieldheap("parser", "source")[r] == old(fieldheap("parser", "source"))[r])
//@   invariant forall(r, 0, old(alloc()), fieldheap("parser", "tokens")[r] == old(fieldheap("parser", "tokens"))[r])
//@   invariant forall(r, 0, old(alloc()), fieldheap("parser", "splitKind")[r] == old(fieldheap("parser", "splitKind"))[r])
//@   invariant forall(r, 0, old(alloc()), fieldheap("scanner", "pos")[r] == old(fieldheap("scanner", "pos"))[r])
//@   invariant forall(r, 0, old(alloc()), fieldheap("scanner", "last")[r] == old(fieldheap("scanner", "last"))[r])
//@   invariant forall(r, 0, old(alloc()), fieldheap("scanner", "s")[r] == old(fieldheap("scanner", "s"))[r])
//@   invariant forall(r, 0, old(alloc()), fieldheap("strings.Builder", "out")[r] == old(fieldheap("strings.Builder", "out"))[r])
//@   decreases len(p.tokens) + 1 - p.pos

// ---------------------------------------------------------------- parser.go: line:column of error messages

//@ func parser.linecol
//@   use linecol
//@   requires 0 <= pos && pos <= len(source)
//@   ensures @line: line == LCl(source[0:pos], 0, 1, 1)
//@   ensures @col: col == LCc(source[0:pos], 0, 1, 1)
//@   ensures @inside: line >= 1 && col >= 1
//@ loop 1
//@   invariant 0 <= nextpos && nextpos <= pos && line >= 1 && col >= 1
//@   invariant LCl(source[0:pos], nextpos, line, col) == LCl(source[0:pos], 0, 1, 1)
//@   invariant LCc(source[0:pos], nextpos, line, col) == LCc(source[0:pos], 0, 1, 1)
//@   decreases pos - nextpos
