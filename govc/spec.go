package main

import (
	"fmt"
	"os"
	"path/filepath"
	"sort"
	"strconv"
	"strings"
)

// Spec modules are SMT-LIB files under /verif/spec. Besides plain SMT-LIB they may contain
//
//	(module-uses a b ...)                       dependencies on other modules
//	(define-fun-rec f ((x S) ...) R body)       a total recursive specification function
//	(define-funs-rec ...)                       mutually recursive ones
//	(lemma name [:induction x] [:uses l1 l2] (forall (...) body))
//	"text"                                      a Go string literal (becomes a Str constant)
//	(O+ o "text")                               o with the bytes of text appended (Out)
//
// Recursive definitions are emitted in the proof encoding P: an uninterpreted
// function plus its defining equation as a quantified axiom triggered on the
// application (Boogie/Dafny style).  Lemmas are proved once (by explicit
// induction when requested) and are then available as axioms to modules and
// functions that use the module.

type SpecFun struct {
	Name string
	Args []string
	Ret  string
	Rec  bool
	Mod  string
}

type Lemma struct {
	Name   string
	Mod    string
	Induct string
	Lower  *SX // induction on an Int x: base case x <= Lower (default 0), step x > Lower with the hypothesis at x-1
	Uses   []string
	Body   *SX // (forall (...) body) or plain body
	Props  []string
}

type SpecModule struct {
	Name   string
	Uses   []string
	Text   string // P encoding of definitions and axioms (lemmas excluded)
	Iface  string // declarations, macros and proved lemmas only: the module as seen by a function that hides it
	Lemmas []*Lemma
	// text segments in order so that a lemma can use everything before it
	Segs []specSeg
}

type specSeg struct {
	Text  string
	Lemma *Lemma
	Axiom bool // a definitional axiom (dropped when the module is hidden for a function)
}

type SpecSet struct {
	Mods map[string]*SpecModule
	Funs map[string]SpecFun
	U    *Universe
}

func loadSpecs(dir string, U *Universe) (*SpecSet, error) {
	ss := &SpecSet{Mods: map[string]*SpecModule{}, Funs: map[string]SpecFun{}, U: U}
	// core functions of the prelude
	ss.Funs["Out.str"] = SpecFun{Name: "Out.str", Args: []string{"Out"}, Ret: "Str"}
	ss.Funs["Str.cat"] = SpecFun{Name: "Str.cat", Args: []string{"Str", "Str"}, Ret: "Str"}
	ss.Funs["OEmpty"] = SpecFun{Name: "OEmpty", Ret: "Out"}
	ss.Funs["OByte"] = SpecFun{Name: "OByte", Args: []string{"Out", "Int"}, Ret: "Out"}
	ss.Funs["OStr"] = SpecFun{Name: "OStr", Args: []string{"Out", "Str"}, Ret: "Out"}
	ss.Funs["ORune"] = SpecFun{Name: "ORune", Args: []string{"Out", "Int"}, Ret: "Out"}
	ss.Funs["strings.ReplaceAll"] = SpecFun{Name: "strings.ReplaceAll", Args: []string{"Str", "Str", "Str"}, Ret: "Str"}
	ss.Funs["strings.ContainsAny"] = SpecFun{Name: "strings.ContainsAny", Args: []string{"Str", "Str"}, Ret: "Bool"}
	ss.Funs["strings.TrimLeft"] = SpecFun{Name: "strings.TrimLeft", Args: []string{"Str", "Str"}, Ret: "Str"}
	ss.Funs["strconv.FormatUint"] = SpecFun{Name: "strconv.FormatUint", Args: []string{"Int", "Int"}, Ret: "Str"}
	files, _ := filepath.Glob(filepath.Join(dir, "*.smt2"))
	sort.Strings(files)
	for _, f := range files {
		src, err := os.ReadFile(f)
		if err != nil {
			return nil, err
		}
		name := strings.TrimSuffix(filepath.Base(f), ".smt2")
		m, err := ss.parseModule(name, string(src))
		if err != nil {
			return nil, fmt.Errorf("%s: %v", f, err)
		}
		ss.Mods[name] = m
	}
	return ss, nil
}

func (ss *SpecSet) litify(s *SX) *SX {
	if !s.IsL {
		if strings.HasPrefix(s.Atom, "\"") {
			str := s.Atom[1 : len(s.Atom)-1]
			str = strings.ReplaceAll(str, "\"\"", "\"")
			str = strings.ReplaceAll(str, "\\n", "\n")
			return atom(ss.U.lit(str))
		}
		return s
	}
	if s.head() == "O+" && len(s.List) == 3 && !s.List[2].IsL && strings.HasPrefix(s.List[2].Atom, "\"") {
		str := s.List[2].Atom[1 : len(s.List[2].Atom)-1]
		str = strings.ReplaceAll(str, "\"\"", "\"")
		str = strings.ReplaceAll(str, "\\n", "\n")
		cur := ss.litify(s.List[1])
		for i := 0; i < len(str); i++ {
			cur = list(atom("OByte"), cur, atom(strconv.Itoa(int(str[i]))))
		}
		return cur
	}
	n := &SX{IsL: true, List: make([]*SX, len(s.List))}
	for i, c := range s.List {
		n.List[i] = ss.litify(c)
	}
	return n
}

func (ss *SpecSet) parseModule(name, src string) (*SpecModule, error) {
	forms, err := parseSX(src)
	if err != nil {
		return nil, err
	}
	m := &SpecModule{Name: name}
	var cur strings.Builder
	curAxiom := false
	flush := func() {
		if cur.Len() > 0 {
			m.Segs = append(m.Segs, specSeg{Text: cur.String(), Axiom: curAxiom})
			cur.Reset()
		}
		curAxiom = false
	}
	_ = curAxiom
	sig := func(params *SX) []string {
		var as []string
		for _, p := range params.List {
			as = append(as, p.List[1].String())
		}
		return as
	}
	emitRec := func(fname string, params *SX, ret *SX, body *SX) {
		// defining axiom
		flush()
		curAxiom = true
		defer flush()
		if len(params.List) == 0 {
			fmt.Fprintf(&cur, "(assert (= %s %s))\n", fname, body)
			return
		}
		var app strings.Builder
		app.WriteString("(" + fname)
		for _, p := range params.List {
			app.WriteString(" " + p.List[0].String())
		}
		app.WriteString(")")
		fmt.Fprintf(&cur, "(assert (forall %s (! (= %s %s) :pattern (%s))))\n", params, app.String(), body, app.String())
	}
	// (declare-deep name nameList local): a predicate that holds of a tree when `local` holds of every node in it
	var expanded []*SX
	for _, f0 := range forms {
		if f0.head() == "declare-deep" {
			more, err := parseSX(genDeep(ss.U, f0.List[1].Atom, f0.List[2].Atom, f0.List[3].Atom))
			if err != nil {
				return nil, err
			}
			expanded = append(expanded, more...)
			continue
		}
		if f0.head() == "declare-deep-sum" {
			more, err := parseSX(genDeepSum(ss.U, f0.List[1].Atom, f0.List[2].Atom, f0.List[3].Atom))
			if err != nil {
				return nil, err
			}
			expanded = append(expanded, more...)
			continue
		}
		expanded = append(expanded, f0)
	}
	forms = expanded
	for _, f0 := range forms {
		f := ss.litify(f0)
		switch f.head() {
		case "module-uses":
			for _, a := range f.List[1:] {
				m.Uses = append(m.Uses, a.Atom)
			}
		case "declare-fun":
			fn := f.List[1].Atom
			var as []string
			for _, a := range f.List[2].List {
				as = append(as, a.String())
			}
			ss.Funs[fn] = SpecFun{Name: fn, Args: as, Ret: f.List[3].String(), Mod: name}
			cur.WriteString(f.String() + "\n")
		case "declare-const":
			fn := f.List[1].Atom
			ss.Funs[fn] = SpecFun{Name: fn, Ret: f.List[2].String(), Mod: name}
			cur.WriteString(f.String() + "\n")
		case "define-fun":
			fn := f.List[1].Atom
			ss.Funs[fn] = SpecFun{Name: fn, Args: sig(f.List[2]), Ret: f.List[3].String(), Mod: name}
			cur.WriteString(f.String() + "\n")
		case "define-fun-rec":
			fn := f.List[1].Atom
			ss.Funs[fn] = SpecFun{Name: fn, Args: sig(f.List[2]), Ret: f.List[3].String(), Rec: true, Mod: name}
			fmt.Fprintf(&cur, "(declare-fun %s (%s) %s)\n", fn, strings.Join(sig(f.List[2]), " "), f.List[3])
			emitRec(fn, f.List[2], f.List[3], f.List[4])
		case "define-fun-rec-fuel":
			// fuelled recursive definition (Dafny style): f$ (FS k) unfolds to a body over f$ k; the fuel does
			// not influence the value; f is f$ with fuel 2, so one occurrence unfolds at most twice and
			// E-matching cannot loop through the definition
			fn := f.List[1].Atom
			params, ret, body := f.List[2], f.List[3], f.List[4]
			ss.Funs[fn] = SpecFun{Name: fn, Args: sig(params), Ret: ret.String(), Rec: true, Mod: name}
			var names []string
			for _, p := range params.List {
				names = append(names, p.List[0].String())
			}
			ps := strings.TrimSuffix(strings.TrimPrefix(params.String(), "("), ")")
			app := func(fuel string) string { return "(" + fn + "$ " + fuel + " " + strings.Join(names, " ") + ")" }
			fmt.Fprintf(&cur, "(declare-fun %s$ (Fuel %s) %s)\n", fn, strings.Join(sig(params), " "), ret)
			fmt.Fprintf(&cur, "(define-fun %s (%s) %s (%s$ (FS (FS FZ)) %s))\n", fn, ps, ret, fn, strings.Join(names, " "))
			flush()
			curAxiom = true
			fmt.Fprintf(&cur, "(assert (forall ((fuel Fuel) %s) (! (= %s %s) :pattern (%s))))\n", ps, app("(FS fuel)"), app("fuel"), app("(FS fuel)"))
			// body with recursive occurrences at lower fuel
			var lower func(x *SX) *SX
			lower = func(x *SX) *SX {
				if !x.IsL {
					return x
				}
				n := &SX{IsL: true}
				for _, c := range x.List {
					n.List = append(n.List, lower(c))
				}
				if x.head() == fn {
					n.List = append([]*SX{atom(fn + "$"), atom("fuel")}, n.List[1:]...)
				}
				return n
			}
			fmt.Fprintf(&cur, "(assert (forall ((fuel Fuel) %s) (! (= %s %s) :pattern (%s))))\n", ps, app("(FS fuel)"), lower(body), app("(FS fuel)"))
			flush()
		case "define-funs-rec":
			decls, bodies := f.List[1].List, f.List[2].List
			for _, d := range decls {
				fn := d.List[0].Atom
				ss.Funs[fn] = SpecFun{Name: fn, Args: sig(d.List[1]), Ret: d.List[2].String(), Rec: true, Mod: name}
				fmt.Fprintf(&cur, "(declare-fun %s (%s) %s)\n", fn, strings.Join(sig(d.List[1]), " "), d.List[2])
			}
			for i, d := range decls {
				emitRec(d.List[0].Atom, d.List[1], d.List[2], bodies[i])
			}
		case "declare-seq":
			// (declare-seq Seq_X X): the sequence vocabulary for a sort declared in a spec module
			sn, en := f.List[1].Atom, f.List[2].String()
			ss.U.seqs[sn] = en
			if ss.U.specSeqs == nil {
				ss.U.specSeqs = map[string]bool{}
			}
			ss.U.specSeqs[sn] = true
			fmt.Fprintf(&cur, "(declare-sort %s 0)\n%s", sn, seqAxioms(sn, en))
		case "lemma":
			flush()
			l := &Lemma{Name: f.List[1].Atom, Mod: name}
			i := 2
			for i < len(f.List)-1 {
				switch f.List[i].Atom {
				case ":induction":
					l.Induct = f.List[i+1].Atom
					i += 2
				case ":lower":
					l.Lower = f.List[i+1]
					i += 2
				case ":uses":
					for _, u := range f.List[i+1].List {
						l.Uses = append(l.Uses, u.Atom)
					}
					i += 2
				case ":props":
					for _, u := range f.List[i+1].List {
						l.Props = append(l.Props, u.Atom)
					}
					i += 2
				default:
					return nil, fmt.Errorf("lemma %s: unknown attribute %s", l.Name, f.List[i])
				}
			}
			l.Body = f.List[len(f.List)-1]
			m.Lemmas = append(m.Lemmas, l)
			m.Segs = append(m.Segs, specSeg{Lemma: l})
		case "assert":
			flush()
			curAxiom = true
			cur.WriteString(f.String() + "\n")
			flush()
		default:
			cur.WriteString(f.String() + "\n")
		}
	}
	flush()
	var all strings.Builder
	for _, s := range m.Segs {
		if s.Lemma == nil {
			all.WriteString(s.Text)
		} else {
			fmt.Fprintf(&all, "; lemma %s (proved separately)\n(assert %s)\n", s.Lemma.Name, s.Lemma.Body)
		}
	}
	m.Text = all.String()
	var iface strings.Builder
	for _, s := range m.Segs {
		switch {
		case s.Lemma != nil:
			fmt.Fprintf(&iface, "; lemma %s (proved separately)\n(assert %s)\n", s.Lemma.Name, s.Lemma.Body)
		case !s.Axiom:
			iface.WriteString(s.Text)
		}
	}
	m.Iface = iface.String()
	return m, nil
}

// closure returns the modules needed for a set of uses, dependencies first.
func (ss *SpecSet) closure(uses []string) []*SpecModule {
	var out []*SpecModule
	seen := map[string]bool{}
	var visit func(n string)
	visit = func(n string) {
		if seen[n] {
			return
		}
		seen[n] = true
		m, ok := ss.Mods[n]
		if !ok {
			limitf("unknown spec module %q", n)
		}
		for _, u := range m.Uses {
			visit(u)
		}
		out = append(out, m)
	}
	for _, u := range uses {
		visit(u)
	}
	return out
}

// genDeep: name(n) holds when local(n') holds of every node n' of the tree n (nil children hold trivially);
// nameList(l, k) is the same for the first k elements of a list.  Generated from the AST struct table, with
// the snoc and nth lemmas (proved by the engine) the loops of the parser need.
func genDeep(U *Universe, name, list, local string) string {
	var b strings.Builder
	fmt.Fprintf(&b, "(declare-fun %s (Node) Bool)\n(declare-fun %s (Seq_Node Int) Bool)\n", name, list)
	fmt.Fprintf(&b, "(assert (= (%s nilN) true))\n(assert (forall ((t Int)) (! (= (%s (nilp t)) true) :pattern ((%s (nilp t))))))\n", name, name, name)
	for _, si := range U.nodeTys {
		var binders, args []string
		for i, f := range si.Fields {
			binders = append(binders, fmt.Sprintf("(f%d %s)", i, f.Sort))
			args = append(args, fmt.Sprintf("f%d", i))
		}
		ctor := "mk_" + si.Name
		if len(args) > 0 {
			ctor = "(mk_" + si.Name + " " + strings.Join(args, " ") + ")"
		}
		conds := []string{fmt.Sprintf("(%s %s)", local, ctor)}
		for i, f := range si.Fields {
			switch f.Sort {
			case "Node":
				conds = append(conds, fmt.Sprintf("(%s f%d)", name, i))
			case "Seq_Node":
				conds = append(conds, fmt.Sprintf("(%s f%d (Seq_Node.len f%d))", list, i, i))
			}
		}
		body := fmt.Sprintf("(= (%s %s) (and %s))", name, ctor, strings.Join(conds, " "))
		if len(binders) == 0 {
			fmt.Fprintf(&b, "(assert %s)\n", body)
		} else {
			fmt.Fprintf(&b, "(assert (forall (%s) (! %s :pattern ((%s %s)))))\n", strings.Join(binders, " "), body, name, ctor)
		}
	}
	fmt.Fprintf(&b, "(assert (forall ((l Seq_Node) (n Int)) (! (= (%s l n) (ite (<= n 0) true (and (%s l (- n 1)) (%s (Seq_Node.nth l (- n 1)))))) :pattern ((%s l n)))))\n", list, list, name, list)
	fmt.Fprintf(&b, "(lemma %s-snoc :induction n (forall ((l Seq_Node) (x Node) (n Int)) (! (=> (<= n (Seq_Node.len l)) (= (%s (Seq_Node.snoc l x) n) (%s l n))) :pattern ((%s (Seq_Node.snoc l x) n)))))\n", list, list, list, list)
	fmt.Fprintf(&b, "(lemma %s-nth :induction n (forall ((l Seq_Node) (n Int) (i Int)) (! (=> (and (%s l n) (<= 0 i) (< i n)) (%s (Seq_Node.nth l i))) :pattern ((%s l n) (Seq_Node.nth l i)))))\n", list, list, name, list)
	return b.String()
}

// genDeepSum: name(n) = own(n) + the sum of name over all children of n (nil children count 0);
// nameList(l, k) is the sum over the first k elements of a list.
func genDeepSum(U *Universe, name, list, own string) string {
	var b strings.Builder
	fmt.Fprintf(&b, "(declare-fun %s (Node) Int)\n(declare-fun %s (Seq_Node Int) Int)\n", name, list)
	fmt.Fprintf(&b, "(assert (= (%s nilN) 0))\n(assert (forall ((t Int)) (! (= (%s (nilp t)) 0) :pattern ((%s (nilp t))))))\n", name, name, name)
	for _, si := range U.nodeTys {
		var binders, args []string
		for i, f := range si.Fields {
			binders = append(binders, fmt.Sprintf("(f%d %s)", i, f.Sort))
			args = append(args, fmt.Sprintf("f%d", i))
		}
		ctor := "mk_" + si.Name
		if len(args) > 0 {
			ctor = "(mk_" + si.Name + " " + strings.Join(args, " ") + ")"
		}
		terms := []string{fmt.Sprintf("(%s %s)", own, ctor)}
		for i, f := range si.Fields {
			switch f.Sort {
			case "Node":
				terms = append(terms, fmt.Sprintf("(%s f%d)", name, i))
			case "Seq_Node":
				terms = append(terms, fmt.Sprintf("(%s f%d (Seq_Node.len f%d))", list, i, i))
			}
		}
		body := fmt.Sprintf("(= (%s %s) (+ %s 0))", name, ctor, strings.Join(terms, " "))
		if len(binders) == 0 {
			fmt.Fprintf(&b, "(assert %s)\n", body)
		} else {
			fmt.Fprintf(&b, "(assert (forall (%s) (! %s :pattern ((%s %s)))))\n", strings.Join(binders, " "), body, name, ctor)
		}
	}
	fmt.Fprintf(&b, "(assert (forall ((l Seq_Node) (n Int)) (! (= (%s l n) (ite (<= n 0) 0 (+ (%s l (- n 1)) (%s (Seq_Node.nth l (- n 1)))))) :pattern ((%s l n)))))\n", list, list, name, list)
	fmt.Fprintf(&b, "(lemma %s-snoc :induction n (forall ((l Seq_Node) (x Node) (n Int)) (! (=> (<= n (Seq_Node.len l)) (= (%s (Seq_Node.snoc l x) n) (%s l n))) :pattern ((%s (Seq_Node.snoc l x) n)))))\n", list, list, list, list)
	return b.String()
}
