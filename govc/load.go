package main

import (
	"fmt"
	"go/ast"
	"go/token"
	"go/types"
	"os"
	"sort"
	"strings"

	"golang.org/x/tools/go/packages"
	"golang.org/x/tools/go/ssa"
	"golang.org/x/tools/go/ssa/ssautil"
)

// Program is the loaded repository: typed syntax + SSA, rebuilt from the
// working tree on every run.
type Program struct {
	Fset  *token.FileSet
	Pkgs  []*packages.Package
	Prog  *ssa.Program
	SSA   map[string]*ssa.Package // by short name: "parser", "pql", "main"
	Funcs map[string]*ssa.Function
	// syntax of each source function, for loop counting and positions
	Decls map[*ssa.Function]ast.Node
	Dir   string // the repository directory that was loaded
}

const modPath = "github.com/runreveal/pql"

func shortPkg(path string) string {
	switch path {
	case modPath:
		return "pql"
	case modPath + "/parser":
		return "parser"
	case modPath + "/cmd/pql":
		return "main"
	}
	return path
}

func loadProgram(repo string) (*Program, error) {
	cfg := &packages.Config{
		Mode: packages.LoadAllSyntax,
		Dir:  repo,
		Env: append(os.Environ(), "GOFLAGS=-mod=mod", "GOPROXY=off", "GOSUMDB=off",
			"GOTOOLCHAIN=local"),
	}
	pkgs, err := packages.Load(cfg, "./...")
	if err != nil {
		return nil, err
	}
	nerr := 0
	packages.Visit(pkgs, nil, func(p *packages.Package) {
		for _, e := range p.Errors {
			if strings.HasPrefix(p.PkgPath, modPath) {
				fmt.Fprintf(os.Stderr, "load error: %s: %v\n", p.PkgPath, e)
				nerr++
			}
		}
	})
	if nerr > 0 {
		return nil, fmt.Errorf("%d load errors in %s", nerr, repo)
	}
	prog, spkgs := ssautil.AllPackages(pkgs, ssa.InstantiateGenerics|ssa.GlobalDebug)
	prog.Build()
	P := &Program{Dir: repo, Fset: pkgs[0].Fset, Pkgs: pkgs, Prog: prog,
		SSA: map[string]*ssa.Package{}, Funcs: map[string]*ssa.Function{},
		Decls: map[*ssa.Function]ast.Node{}}
	for i, sp := range spkgs {
		if sp == nil {
			continue
		}
		P.SSA[shortPkg(pkgs[i].PkgPath)] = sp
	}
	for fn := range ssautil.AllFunctions(prog) {
		if fn.Pkg == nil && fn.Origin() == nil {
			continue
		}
		pk := fn.Pkg
		if pk == nil && fn.Origin() != nil {
			pk = fn.Origin().Pkg
		}
		if pk == nil || !strings.HasPrefix(pk.Pkg.Path(), modPath) {
			continue
		}
		name := funcKey(fn)
		if old, dup := P.Funcs[name]; dup && old != fn {
			// generic instances share a base name; keep them distinct
			name = name + "#" + fn.Name()
		}
		P.Funcs[name] = fn
		if fn.Syntax() != nil {
			P.Decls[fn] = fn.Syntax()
		}
	}
	return P, nil
}

// funcKey gives the contract-file name of a function:
//
//	parser.Scan, parser.(*scanner).next, parser.Parse$1, pql.(*subquery).write,
//	parser.nodeSliceSpan[*parser.Ident]
func funcKey(fn *ssa.Function) string {
	pk := fn.Pkg
	if pk == nil && fn.Origin() != nil {
		pk = fn.Origin().Pkg
	}
	p := ""
	if pk != nil {
		p = shortPkg(pk.Pkg.Path())
	}
	if fn.Parent() != nil {
		// anonymous function: Parent$N
		return funcKey(fn.Parent()) + "$" + strings.TrimPrefix(fn.Name(), fn.Parent().Name()+"$")
	}
	if recv := fn.Signature.Recv(); recv != nil {
		t := recv.Type()
		star := ""
		if pt, ok := t.(*types.Pointer); ok {
			t = pt.Elem()
			star = "*"
		}
		tn := t.String()
		if n, ok := t.(*types.Named); ok {
			tn = n.Obj().Name()
		}
		if star != "" {
			return fmt.Sprintf("%s.(*%s).%s", p, tn, fn.Name())
		}
		return fmt.Sprintf("%s.(%s).%s", p, tn, fn.Name())
	}
	name := fn.Name()
	name = strings.ReplaceAll(name, modPath+"/parser.", "parser.")
	name = strings.ReplaceAll(name, modPath+".", "pql.")
	return p + "." + name
}

func (P *Program) sortedFuncNames() []string {
	var ns []string
	for n := range P.Funcs {
		ns = append(ns, n)
	}
	sort.Strings(ns)
	return ns
}

// loopsInSyntax counts for/range statements of a function body, not descending
// into function literals.
func loopsInSyntax(n ast.Node) int {
	c := 0
	var body *ast.BlockStmt
	switch d := n.(type) {
	case *ast.FuncDecl:
		body = d.Body
	case *ast.FuncLit:
		body = d.Body
	}
	if body == nil {
		return 0
	}
	ast.Inspect(body, func(x ast.Node) bool {
		switch x.(type) {
		case *ast.FuncLit:
			return false
		case *ast.ForStmt, *ast.RangeStmt:
			c++
		}
		return true
	})
	return c
}
