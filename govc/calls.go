package main

import (
	"fmt"
	"go/types"
	"sort"
	"strings"

	"golang.org/x/tools/go/ssa"
)

// ---- call dispatch ---------------------------------------------------------------

func (x *Exec) call(st *State, call *ssa.Call, k retK) {
	c := call.Common()
	if c.IsInvoke() {
		x.invoke(st, call, k)
		return
	}
	if b, ok := c.Value.(*ssa.Builtin); ok {
		x.builtin(st, call, b, k)
		return
	}
	var args []Val
	for _, a := range c.Args {
		args = append(args, x.valOf(st, a))
	}
	callee := c.StaticCallee()
	var fnval *FnVal
	if callee == nil {
		fv := x.valOf(st, c.Value)
		if fv.Fn != nil {
			callee = fv.Fn.Fn
			fnval = fv.Fn
		} else {
			x.dynamicCall(st, call, fv, args, k)
			return
		}
	} else if mc, ok := c.Value.(*ssa.MakeClosure); ok {
		fv := x.valOf(st, mc)
		fnval = fv.Fn
	}
	x.callFunc(st, callee, fnval, args, call, k)
}

func (x *Exec) callFunc(st *State, callee *ssa.Function, fnval *FnVal, args []Val, site ssa.Instruction, k retK) {
	key := funcKey(callee)
	if key == "pql.initKnownFunctions" {
		// the table of built-in rewrites: read from the initialiser closure (sync.Once: assumed to have run it)
		if x.E.kfTable() == nil {
			limitf("cannot read the table built by initKnownFunctions")
		}
		x.usedModels["sync.(*Once).Do"] = true
		k(st, []Val{{S: "Int", T: x.globConst(st, "glob.pql.knownFunctions.m", "Int"), GT: callee.Signature.Results().At(0).Type(), Inner: &Val{S: "@kf"}}})
		return
	}
	if lm := findLibModel(key); lm != nil {
		x.usedModels[key] = true
		rs := lm.run(x, st, args, site)
		k(st, rs)
		return
	}
	if !strings.HasPrefix(calleePkgPath(callee), modPath) {
		if lm := pureStringsModel(key, callee.Signature, x.U()); lm != nil {
			x.usedModels[key] = true
			k(st, lm.run(x, st, args, site))
			return
		}
		limitf("no model for library function %s (called at %s)", key, x.pos(site.Pos()))
	}
	ct := x.E.CS.get(key)
	if ct != nil && !ct.Inline {
		x.callContract(st, callee, ct, args, site, k)
		return
	}
	if callee.Blocks == nil {
		limitf("call of %s which has no body", key)
	}
	if x.E.isRecursive(callee) {
		limitf("%s calls %s, which needs a contract (it is recursive)", x.key, key)
	}
	if x.hasLoops(callee) && !(ct != nil && ct.Inline) {
		limitf("%s calls %s, which needs a contract (it has loops)", x.key, key)
	}
	if fnval == nil {
		fnval = &FnVal{Fn: callee}
	}
	x.inlined[key] = true
	x.inlineArgs(st, fnval, args, k)
}

func (x *Exec) hasLoops(fn *ssa.Function) bool {
	for _, b := range fn.Blocks {
		for _, s := range b.Succs {
			if s.Dominates(b) {
				return true
			}
		}
	}
	return false
}

func (x *Exec) inline(st *State, fv *FnVal, args []Val, k retK) { x.inlineArgs(st, fv, args, k) }

func (x *Exec) inlineArgs(st *State, fv *FnVal, args []Val, k retK) {
	if len(st.frames) > 12 {
		limitf("inlining too deep at %s", funcKey(fv.Fn))
	}
	fn := fv.Fn
	fr := &Frame{fn: fn, regs: map[ssa.Value]Val{}, vars: map[string]Val{}, params: map[string]Val{}, variant: map[int][]string{}, fnval: fv}
	for i, p := range fn.Params {
		if i < len(args) {
			a := args[i]
			if a.S == "Nil" {
				a = x.zeroVal(p.Type(), x.U().sortOf(p.Type()))
			}
			if a.GT == nil {
				a.GT = p.Type()
			}
			fr.regs[p] = a
			fr.params[p.Name()] = a
		}
	}
	st.frames = append(st.frames, fr)
	x.run(st, fn.Blocks[0], 0, func(st *State, rs []Val) {
		fr := st.top()
		ds := fr.defers
		fr.defers = nil
		if len(ds) > 0 {
			limitf("inlined function returns with pending defers")
		}
		st.frames = st.frames[:len(st.frames)-1]
		k(st, rs)
	})
}

// ---- calls by contract -------------------------------------------------------------

func (x *Exec) calleeEnv(st *State, callee *ssa.Function, args []Val) *Env {
	vars := map[string]Val{}
	for i, p := range callee.Params {
		if i >= len(args) {
			break
		}
		a := args[i]
		if a.S == "Nil" {
			a = x.zeroVal(p.Type(), x.U().sortOf(p.Type()))
		}
		if a.A != nil && a.T == "" {
			t := x.term(st, a, true)
			a = Val{S: x.U().sortOf(p.Type()), T: t, GT: p.Type()}
		}
		if a.GT == nil || true {
			a.GT = p.Type()
		}
		vars[p.Name()] = a
	}
	return &Env{x: x, st: st, vars: vars, pkg: x.pkgOf(callee)}
}

func (x *Exec) callContract(st *State, callee *ssa.Function, ct *Contract, args []Val, site ssa.Instruction, k retK) {
	U := x.U()
	key := funcKey(callee)
	if ct.Trusted {
		x.usedTrusted[key] = true
	}
	ev := x.calleeEnv(st, callee, args)
	where := ""
	if site != nil {
		where = " at " + x.pos(site.Pos())
	}
	for i, r := range ct.Requires {
		st.check(fmt.Sprintf("%s/pre/%s/%s", x.key, key, clauseName(r, i)), ev.evalClause(r), "precondition of "+key+where)
	}
	// termination of recursion
	if x.E.sameSCC(x.fn, callee) {
		if ct.Decreases == nil || x.ct == nil || x.ct.Decreases == nil {
			limitf("%s and %s are mutually recursive: both need a decreases clause", x.key, key)
		}
		nw := ev.evalTerms(*ct.Decreases)
		old := st.frames[0].entryMeasure
		st.check(fmt.Sprintf("%s/term/rec/%s", x.key, key), lexLess(nw, old), "measure decreases at recursive call"+where)
	}
	// snapshot
	oldH := map[string]string{}
	for n, t := range st.heaps {
		oldH[n] = t
	}
	oldAlloc := st.alloc
	// effects
	m := newMods()
	x.modsFromContract(st, callee, ct, func(name string) (Val, bool) {
		v, ok := ev.vars[name]
		return v, ok
	}, m)
	for s := range x.E.allocTypes(callee) {
		if strings.HasPrefix(s, "map:") {
			m.Allocs = true
			continue
		}
		si := U.byName[s]
		if si == nil {
			continue
		}
		m.Allocs = true
		for i, f := range si.Fields {
			m.heapMod(heapName(si, i), f.Sort).Alloc = true
		}
	}
	x.applyMods(st, m)
	// results
	var rs []Val
	res := callee.Signature.Results()
	for i := 0; i < res.Len(); i++ {
		t := res.At(i).Type()
		s := U.sortOf(t)
		name := res.At(i).Name()
		if name == "" {
			name = fmt.Sprintf("r%d", i)
		}
		r := Val{S: s, T: st.fresh(callee.Name()+"."+name, s), GT: t}
		if tk := U.typeOKEager(r.T, t); tk != "" {
			st.assume(tk)
		}
		rs = append(rs, r)
		if res.At(i).Name() != "" {
			ev.vars[res.At(i).Name()] = r
		}
	}
	ev.res = rs
	ev.oldH = oldH
	fr := st.top()
	saveOldAlloc := fr.oldAlloc
	fr.oldAlloc = oldAlloc
	for _, e := range ct.Ensures {
		if strings.HasPrefix(e.Label, "ok.") || strings.HasPrefix(e.Label, "err.") {
			continue // an internal assertion about the callee's success / error returns (mentions its locals)
		}
		st.assume(ev.evalClause(e))
	}
	fr.oldAlloc = saveOldAlloc
	k(st, rs)
}

// ---- interface method calls -----------------------------------------------------------

func (x *Exec) invoke(st *State, call *ssa.Call, k retK) {
	c := call.Common()
	recv := x.valOf(st, c.Value)
	name := c.Method.Name()
	rsort := recv.S
	if rsort == "" {
		rsort = x.U().sortOf(c.Value.Type())
	}
	switch {
	case rsort == "Node" && name == "Span":
		t := x.term(st, recv, false)
		st.check(x.key+"/safety/nil", fmt.Sprintf("(not (= %s nilN))", t), "method call on nil interface at "+x.pos(call.Pos()))
		// preconditions of the dynamically selected method
		for _, si := range x.U().nodeTys {
			mk := fmt.Sprintf("parser.(*%s).Span", si.Name)
			if ct := x.E.CS.get(mk); ct != nil && len(ct.Requires) > 0 {
				fn := x.E.P.Funcs[mk]
				if fn == nil {
					continue
				}
				ev := x.calleeEnv(st, fn, []Val{{S: "Node", T: t}})
				for i, r := range ct.Requires {
					g := fmt.Sprintf("(=> %s %s)", x.U().typeOK(t, fn.Params[0].Type()), ev.evalClause(r))
					st.check(fmt.Sprintf("%s/pre/%s/%s", x.key, mk, clauseName(r, i)), g, "precondition of dynamically dispatched "+mk+" at "+x.pos(call.Pos()))
				}
			}
		}
		// termination: the dispatched method has measure (height(receiver), 0)
		if x.ct != nil && x.ct.Decreases != nil && len(st.frames[0].entryMeasure) == 2 {
			st.check(x.key+"/term/rec/Span", lexLess([]string{fmt.Sprintf("(height %s)", t), "0"}, st.frames[0].entryMeasure), "measure decreases at dynamically dispatched Span() at "+x.pos(call.Pos()))
		} else if x.E.reachesSpan(x.fn) {
			limitf("%s calls Node.Span() and is part of the recursive Span cycle: it needs `decreases <height>, <rank>`", x.key)
		}
		x.E.needSpanOf = true
		k(st, []Val{{S: "Span", T: fmt.Sprintf("(SpanOf %s)", t), GT: call.Type()}})
	case rsort == "Err" && name == "Error":
		t := x.term(st, recv, false)
		st.check(x.key+"/safety/nil", fmt.Sprintf("(not (= %s ErrNil))", t), "Error() on nil error at "+x.pos(call.Pos()))
		k(st, []Val{{S: "Str", T: st.fresh("errstr", "Str")}})
	case rsort == "Err" && name == "Unwrap":
		t := x.term(st, recv, false)
		st.check(x.key+"/safety/nil", fmt.Sprintf("((_ is EJoin) %s)", t), "Unwrap() []error receiver at "+x.pos(call.Pos()))
		// library fact about package errors: only errors.Join constructs the unexported joinError, from a non-empty list without nils
		st.assume(fmt.Sprintf("(and (> (Seq_Err.len (EJoin.list %s)) 0) (forall ((j Int)) (! (=> (and (<= 0 j) (< j (Seq_Err.len (EJoin.list %s)))) (not (= (Seq_Err.nth (EJoin.list %s) j) ErrNil))) :pattern ((Seq_Err.nth (EJoin.list %s) j)))))", t, t, t, t))
		k(st, []Val{{S: "Seq_Err", T: fmt.Sprintf("(EJoin.list %s)", t)}})
	default:
		if lm := libModels["invoke:"+name]; lm != nil {
			var args []Val
			args = append(args, recv)
			for _, a := range c.Args {
				args = append(args, x.valOf(st, a))
			}
			x.usedModels["invoke:"+name] = true
			k(st, lm.run(x, st, args, call))
			return
		}
		limitf("interface method call %s.%s at %s", rsort, name, x.pos(call.Pos()))
	}
}

// dynamicCall: a call through a function value that is not statically known.
func (x *Exec) dynamicCall(st *State, call *ssa.Call, fv Val, args []Val, k retK) {
	// The callee is described by a "callback contract" of the enclosing function:
	//   //@ callback visit ...   (not yet needed beyond pure uninterpreted callbacks)
	sig := call.Common().Signature()
	U := x.U()
	name := "dyn"
	if p, ok := call.Common().Value.(*ssa.Parameter); ok {
		name = p.Name()
	}
	if cb := x.E.callbackModel(x, name); cb != nil {
		k(st, cb(x, st, fv, args, call))
		return
	}
	_ = U
	if fv.S == "Fn" && fv.T != "" {
		// case split over the module functions of this signature (address-taken candidates)
		var cands []*ssa.Function
		for _, f := range x.E.P.Funcs {
			if f.Signature.Recv() == nil && f.Parent() == nil && f.TypeParams().Len() == 0 && types.Identical(f.Signature, sig) {
				cands = append(cands, f)
			}
		}
		sort.Slice(cands, func(i, j int) bool { return funcKey(cands[i]) < funcKey(cands[j]) })
		var neqs []string
		for _, c := range cands {
			fc := U.fnConst(funcKey(c))
			neqs = append(neqs, fmt.Sprintf("(not (= %s %s))", fv.T, fc))
			st2 := st.clone()
			st2.assume(fmt.Sprintf("(= %s %s)", fv.T, fc))
			x.callFunc(st2, c, nil, args, call, k)
		}
		// the function value is none of the candidates: must be impossible
		st.assume("(and " + strings.Join(append(neqs, "true"), " ") + ")")
		st.check(x.key+"/safety/dyncall", "false", "call through a function value that is none of the known functions of this type, at "+x.pos(call.Pos()))
		x.finish(st, "dyncall")
		return
	}
	limitf("dynamic call through %s at %s", name, x.pos(call.Pos()))
}

// ---- builtins -----------------------------------------------------------------------

func (x *Exec) builtin(st *State, call *ssa.Call, b *ssa.Builtin, k retK) {
	U := x.U()
	c := call.Common()
	arg := func(i int) Val { return x.valOf(st, c.Args[i]) }
	switch b.Name() {
	case "len":
		v := arg(0)
		if _, ok := c.Args[0].Type().Underlying().(*types.Map); ok {
			limitf("len of map")
		}
		if v.Elems != nil {
			k(st, []Val{{S: "Int", T: fmt.Sprint(len(v.Elems))}})
			return
		}
		t := x.term(st, v, false)
		k(st, []Val{{S: "Int", T: fmt.Sprintf("(%s.len %s)", v.S, t)}})
	case "cap":
		v := arg(0)
		t := x.term(st, v, false)
		r := st.fresh("cap", "Int")
		st.assume(fmt.Sprintf("(>= %s (%s.len %s))", r, v.S, t))
		k(st, []Val{{S: "Int", T: r}})
	case "append":
		s := U.sortOf(call.Type())
		a, bb := arg(0), arg(1)
		at := a.T
		if a.S == "Nil" {
			at = s + ".empty"
		} else {
			at = x.term(st, a, false)
		}
		if bb.S == "Nil" {
			k(st, []Val{{S: s, T: at}})
			return
		}
		if bb.Elems != nil {
			live := false
			for _, e := range bb.Elems {
				live = live || x.liveRecord(st, e)
			}
			if live {
				// appending a pointer to a record that is still being filled in (col := &T{...}; s = append(s, col);
				// col.f = ...): the element is read when the sequence is next needed as a value
				k(st, []Val{{S: s, LazyBase: at, LazyTail: append([]Val(nil), bb.Elems...)}})
				return
			}
			t := at
			for _, e := range bb.Elems {
				t = fmt.Sprintf("(%s.snoc %s %s)", s, t, x.term(st, e, true))
			}
			k(st, []Val{{S: s, T: t}})
			return
		}
		bt := x.term(st, bb, false)
		x.E.needCat[s] = true
		k(st, []Val{{S: s, T: fmt.Sprintf("(%s.cat %s %s)", s, at, bt)}})
	case "min", "max":
		a, bb := x.term(st, arg(0), false), x.term(st, arg(1), false)
		op := "<="
		if b.Name() == "max" {
			op = ">="
		}
		k(st, []Val{{S: "Int", T: fmt.Sprintf("(ite (%s %s %s) %s %s)", op, a, bb, a, bb)}})
	default:
		limitf("builtin %s", b.Name())
	}
}

// ---- maps ---------------------------------------------------------------------------

func (x *Exec) mapSorts(mt *types.Map) (ks, vs, dn, vn, ds, vsort string) {
	U := x.U()
	ks, vs = U.sortOf(mt.Key()), U.sortOf(mt.Elem())
	dn, vn = mapHeapNames(U, mt)
	return ks, vs, dn, vn, "(Array " + ks + " Bool)", "(Array " + ks + " " + vs + ")"
}

func (x *Exec) globalMap(v Val) *ssa.Global {
	if v.Inner != nil && v.Inner.A != nil && v.Inner.A.Glob != nil {
		return v.Inner.A.Glob
	}
	return nil
}

func (x *Exec) lookup(st *State, in *ssa.Lookup, set func(ssa.Value, Val)) {
	U := x.U()
	if _, isStr := in.X.Type().Underlying().(*types.Basic); isStr {
		base := x.valOf(st, in.X)
		idx := x.valOf(st, in.Index)
		it, bt := x.term(st, idx, false), x.term(st, base, false)
		st.check(x.key+"/safety/index", fmt.Sprintf("(and (<= 0 %s) (< %s (Str.len %s)))", it, it, bt), "string index at "+x.pos(in.Pos()))
		set(in, Val{S: "Int", T: fmt.Sprintf("(Str.nth %s %s)", bt, it)})
		return
	}
	mt := in.X.Type().Underlying().(*types.Map)
	mv := x.valOf(st, in.X)
	key := x.term(st, x.valOf(st, in.Index), false)
	ks, vs, dn, vn, dsrt, vsrt := x.mapSorts(mt)
	var okT, valT string
	if mv.Inner != nil && mv.Inner.S == "@kf" {
		tab := x.E.kfTable()
		si := U.byName["functionRewrite"]
		wi, pi := fieldIndex(si, "write"), fieldIndex(si, "needsParens")
		hw := st.heap(heapName(si, wi), "Fn")
		hp := st.heap(heapName(si, pi), "Bool")
		valT = "0"
		var oks []string
		for i := len(tab) - 1; i >= 0; i-- {
			ref := fmt.Sprintf("(- %d)", i+1)
			kt := U.lit(tab[i].Key)
			st.assume(fmt.Sprintf("(= (select %s %s) %s)", hw, ref, U.fnConst(funcKey(tab[i].Fn))))
			st.assume(fmt.Sprintf("(= (select %s %s) %v)", hp, ref, tab[i].Parens))
			oks = append(oks, fmt.Sprintf("(= %s %s)", key, kt))
			valT = fmt.Sprintf("(ite (= %s %s) %s %s)", key, kt, ref, valT)
		}
		okT = "(or " + strings.Join(oks, " ") + ")"
	} else if g := x.globalMap(mv); g != nil {
		// package-level map: contents fixed by the package initialiser (proved never updated: C14)
		ents := x.E.globalMapEntries(g)
		if ents == nil {
			limitf("cannot read initialiser of global map %s", g.Name())
		}
		okT = "false"
		valT = U.zero(mt.Elem())
		var oks []string
		for i := len(ents) - 1; i >= 0; i-- {
			kt := x.constVal(ents[i].K).T
			var vt string
			if ents[i].V != nil {
				vt = x.constVal(ents[i].V).T
			} else {
				vt = U.zero(mt.Elem())
			}
			oks = append(oks, fmt.Sprintf("(= %s %s)", key, kt))
			valT = fmt.Sprintf("(ite (= %s %s) %s %s)", key, kt, vt, valT)
		}
		if len(oks) > 0 {
			okT = "(or " + strings.Join(oks, " ") + ")"
		}
		x.E.globalMapsRead[g.Name()] = true
	} else {
		mtm := x.term(st, mv, false)
		d := st.heap(dn, dsrt)
		v := st.heap(vn, vsrt)
		// the nil map has no entries
		st.assume(fmt.Sprintf("(= (select %s 0) ((as const (Array %s Bool)) false))", d, ks))
		okT = fmt.Sprintf("(select (select %s %s) %s)", d, mtm, key)
		valT = fmt.Sprintf("(ite %s (select (select %s %s) %s) %s)", okT, v, mtm, key, U.zero(mt.Elem()))
	}
	r := Val{S: vs, T: valT, GT: mt.Elem()}
	if in.CommaOk {
		set(in, Val{Tup: []Val{r, {S: "Bool", T: okT}}})
	} else {
		set(in, r)
	}
}

func (x *Exec) makeMap(st *State, in *ssa.MakeMap, set func(ssa.Value, Val)) {
	mt := in.Type().Underlying().(*types.Map)
	ks, _, dn, vn, dsrt, vsrt := x.mapSorts(mt)
	r := st.fresh("mapref", "Int")
	st.assume(fmt.Sprintf("(= %s %s)", r, st.alloc))
	na := st.fresh("alloc", "Int")
	st.assume(fmt.Sprintf("(= %s (+ %s 1))", na, st.alloc))
	st.alloc = na
	d := st.heap(dn, dsrt)
	st.setHeap(dn, dsrt, fmt.Sprintf("(store %s %s ((as const (Array %s Bool)) false))", d, r, ks))
	st.heap(vn, vsrt)
	set(in, Val{S: "Int", T: r, GT: in.Type()})
}

func (x *Exec) mapUpdate(st *State, in *ssa.MapUpdate) {
	mt := in.Map.Type().Underlying().(*types.Map)
	mv := x.valOf(st, in.Map)
	if g := x.globalMap(mv); g != nil {
		st.check(x.key+"/frame/global", "false", "update of package-level map "+g.Name()+" at "+x.pos(in.Pos()))
		return
	}
	_, _, dn, vn, dsrt, vsrt := x.mapSorts(mt)
	m := x.term(st, mv, false)
	key := x.term(st, x.valOf(st, in.Key), false)
	val := x.term(st, x.valOf(st, in.Value), true)
	st.check(x.key+"/safety/nil", fmt.Sprintf("(not (= %s 0))", m), "assignment to entry in nil map at "+x.pos(in.Pos()))
	d := st.heap(dn, dsrt)
	v := st.heap(vn, vsrt)
	st.setHeap(dn, dsrt, fmt.Sprintf("(store %s %s (store (select %s %s) %s true))", d, m, d, m, key))
	st.setHeap(vn, vsrt, fmt.Sprintf("(store %s %s (store (select %s %s) %s %s))", v, m, v, m, key, val))
}

// ---- range over string / map ----------------------------------------------------------
//
// The iterator is a local cell object holding ghost state:
//   string: [0]=the string, [1]=current byte position
//   map:    [0]=map ref, [1]=set of keys already produced (Array K Bool)

func (x *Exec) rangeInit(st *State, in *ssa.Range, set func(ssa.Value, Val)) {
	xv := x.valOf(st, in.X)
	st.nobj++
	o := &Obj{ID: st.nobj, T: in.X.Type(), Kind: objArray, Alloc: in}
	switch t := in.X.Type().Underlying().(type) {
	case *types.Basic:
		o.Vals = []Val{{S: "Str", T: x.term(st, xv, false)}, {S: "Int", T: "0"}}
	case *types.Map:
		ks := x.U().sortOf(t.Key())
		o.Vals = []Val{{S: "Int", T: x.term(st, xv, false), GT: in.X.Type(), Inner: xv.Inner}, {S: "(Array " + ks + " Bool)", T: fmt.Sprintf("((as const (Array %s Bool)) false)", ks)}}
	default:
		limitf("range over %v", in.X.Type())
	}
	st.objs[o.ID] = o
	set(in, Val{A: &Addr{ObjID: o.ID, T: in.X.Type()}, S: "@iter"})
	if _, isStr := in.X.Type().Underlying().(*types.Basic); isStr {
		// `nextpos`: the byte offset at which the next rune of a string iteration is decoded
		st.top().vars["nextpos"] = Val{S: "@addr", A: &Addr{ObjID: o.ID, Path: []int{1}}}
	}
	if _, isMap := in.X.Type().Underlying().(*types.Map); isMap {
		// `seen`: the ghost set of keys the iteration has produced so far
		st.top().vars["seen"] = Val{S: "@addr", A: &Addr{ObjID: o.ID, Path: []int{1}}}
	}
}

func (x *Exec) rangeNext(st *State, in *ssa.Next, set func(ssa.Value, Val)) {
	U := x.U()
	it := x.valOf(st, in.Iter)
	o := st.objs[it.A.ObjID]
	if in.IsString {
		s, pos := o.Vals[0].T, o.Vals[1].T
		ok := fmt.Sprintf("(< %s (Str.len %s))", pos, s)
		x.E.needUTF8 = true
		r := fmt.Sprintf("(utf8.rune (Str.slice %s %s (Str.len %s)))", s, pos, s)
		w := fmt.Sprintf("(utf8.size (Str.slice %s %s (Str.len %s)))", s, pos, s)
		np := st.fresh("iterpos", "Int")
		st.assume(fmt.Sprintf("(= %s (ite %s (+ %s %s) %s))", np, ok, pos, w, pos))
		o.Vals[1] = Val{S: "Int", T: np}
		st.top().vars["iterpos"] = Val{S: "Int", T: pos}
		set(in, Val{Tup: []Val{{S: "Bool", T: ok}, {S: "Int", T: pos}, {S: "Int", T: r}}})
		return
	}
	mt := in.Iter.(*ssa.Range).X.Type().Underlying().(*types.Map)
	ks, vs, dn, vn, dsrt, vsrt := x.mapSorts(mt)
	m, seen := o.Vals[0].T, o.Vals[1].T
	d := st.heap(dn, dsrt)
	v := st.heap(vn, vsrt)
	ok := st.fresh("next_ok", "Bool")
	key := st.fresh("next_k", ks)
	// ok  => key in dom, not yet seen;  !ok => every key of dom has been seen
	st.assume(fmt.Sprintf("(=> %s (and (select (select %s %s) %s) (not (select %s %s))))", ok, d, m, key, seen, key))
	st.assume(fmt.Sprintf("(=> (not %s) (forall ((k %s)) (=> (select (select %s %s) k) (select %s k))))", ok, ks, d, m, seen))
	ns := st.fresh("seen", "(Array "+ks+" Bool)")
	st.assume(fmt.Sprintf("(= %s (ite %s (store %s %s true) %s))", ns, ok, seen, key, seen))
	o.Vals[1] = Val{S: o.Vals[1].S, T: ns}
	val := Val{S: vs, T: fmt.Sprintf("(select (select %s %s) %s)", v, m, key), GT: mt.Elem()}
	_ = U
	set(in, Val{Tup: []Val{{S: "Bool", T: ok}, {S: ks, T: key, GT: mt.Key()}, val}})
}

// ---- top level -------------------------------------------------------------------------

func (x *Exec) verify() (err error) {
	defer func() {
		if r := recover(); r != nil {
			if tl, ok := r.(toolLimit); ok {
				err = tl
				return
			}
			panic(r)
		}
	}()
	U := x.U()
	fn := x.fn
	x.findLoops()
	st := &State{objs: map[int]*Obj{}, heaps: map[string]string{}, heapSort: map[string]string{}, sb: &strings.Builder{}, guardCount: new(map[string]int)}
	st.emit("(declare-const alloc@0 Int)\n(assert (> alloc@0 0))")
	st.alloc = "alloc@0"
	fr := &Frame{fn: fn, regs: map[ssa.Value]Val{}, vars: map[string]Val{}, params: map[string]Val{}, variant: map[int][]string{}, top: true, oldHeaps: map[string]string{}, oldAlloc: "alloc@0"}
	st.frames = []*Frame{fr}
	for _, p := range fn.Params {
		s := U.sortOf(p.Type())
		v := Val{S: s, T: st.fresh("p."+p.Name(), s), GT: p.Type()}
		if tk := U.typeOKEager(v.T, p.Type()); tk != "" {
			st.assume(tk)
		}
		if s == "Int" {
			if _, isPtr := p.Type().Underlying().(*types.Pointer); isPtr {
				st.assume(fmt.Sprintf("(and (<= 0 %s) (< %s alloc@0))", v.T, v.T))
			}
			if _, isMap := p.Type().Underlying().(*types.Map); isMap {
				st.assume(fmt.Sprintf("(and (<= 0 %s) (< %s alloc@0))", v.T, v.T))
			}
		}
		fr.regs[p] = v
		fr.params[p.Name()] = v
	}
	if len(fn.FreeVars) > 0 {
		// closure verified on its own: free variables are cells holding arbitrary values
		fv := &FnVal{Fn: fn}
		for _, v := range fn.FreeVars {
			et := v.Type().(*types.Pointer).Elem()
			o := x.newObj(st, et, nil)
			if o.Kind == objCell {
				s := U.sortOf(et)
				o.Vals[0] = Val{S: s, T: st.fresh("fv."+v.Name(), s), GT: et}
				if tk := U.typeOKEager(o.Vals[0].T, et); tk != "" {
					st.assume(tk)
				}
			}
			b := Val{A: &Addr{ObjID: o.ID, T: et}}
			fv.Bindings = append(fv.Bindings, b)
			fr.params[v.Name()] = Val{S: "@addr", A: b.A, GT: et}
		}
		fr.fnval = fv
	}
	if x.ct != nil && x.ct.Ghost != "" {
		st.nobj++
		seq := "Seq_Node"
		for _, prm := range fn.Params {
			if sig, ok := prm.Type().Underlying().(*types.Signature); ok && prm.Name() == x.ct.Ghost && sig.Params().Len() > 0 {
				es := U.sortOf(sig.Params().At(0).Type())
				seq = "Seq_" + es
				U.seqs[seq] = es
			}
		}
		o := &Obj{ID: st.nobj, Kind: objCell, Vals: []Val{{S: seq, T: seq + ".empty"}}}
		st.objs[o.ID] = o
		fr.vars["trace"] = Val{S: "@addr", A: &Addr{ObjID: o.ID}}
	}
	ev := &Env{x: x, st: st, vars: fr.params, pkg: x.pkgOf(fn)}
	if x.ct != nil {
		for _, r := range x.ct.Requires {
			st.assume(ev.evalClause(r))
		}
		st.guard(x.key+"/vacuity/requires", "precondition satisfiable")
		if x.ct.Decreases != nil {
			fr.entryMeasure = ev.evalTerms(*x.ct.Decreases)
		}
	}
	x.run(st, fn.Blocks[0], 0, func(st *State, rs []Val) { x.checkPost(st, rs) })
	if x.ct != nil {
		for _, e := range x.ct.Ensures {
			if (strings.HasPrefix(e.Label, "ok.") || strings.HasPrefix(e.Label, "err.")) && x.okEval[e.Label] == 0 {
				limitf("%s: clause @%s was never evaluated: the locals it names do not exist at any success return", x.key, e.Label)
			}
		}
	}
	return nil
}

func (x *Exec) checkPost(st *State, rs []Val) {
	U := x.U()
	fr := st.frames[0]
	if len(st.frames) != 1 {
		limitf("return with %d frames", len(st.frames))
	}
	if len(fr.defers) > 0 {
		limitf("return with pending defers (no rundefers)")
	}
	vars := map[string]Val{}
	for k, v := range fr.params {
		vars[k] = v
	}
	for k, v := range fr.vars {
		if _, ok := vars[k]; !ok {
			vars[k] = v
		}
	}
	var res []Val
	sig := x.fn.Signature.Results()
	for i, r := range rs {
		if r.S == "Nil" {
			r = x.zeroVal(sig.At(i).Type(), U.sortOf(sig.At(i).Type()))
		}
		if r.A != nil && r.T == "" {
			t := x.term(st, r, true)
			r = Val{S: U.sortOf(sig.At(i).Type()), T: t}
		}
		r.GT = sig.At(i).Type()
		res = append(res, r)
		if n := sig.At(i).Name(); n != "" && n != "_" {
			vars[n] = r
		}
	}
	ev := &Env{x: x, st: st, vars: vars, oldH: fr.oldHeaps, pkg: x.pkgOf(x.fn), res: res}
	if x.ct != nil {
		for i, e := range x.ct.Ensures {
			if e.Label == "function" && x.ct.FunctionOf != "" {
				// definitional: the spec function names this function's result; justified by the determinism check
				continue
			}
			if strings.HasPrefix(e.Label, "err.") {
				// an assertion about error returns only (may mention locals): checked under the hypothesis that
				// the returned error is non-nil, at every return where the names it mentions exist
				var conds []string
				for _, r := range res {
					if r.S == "Err" && r.T != "ErrNil" {
						conds = append(conds, fmt.Sprintf("(not (= %s ErrNil))", r.T))
					}
				}
				if len(conds) == 0 {
					continue
				}
				term, okc := x.tryClause(ev, e)
				if !okc {
					continue
				}
				x.okEval[e.Label]++
				st.check(fmt.Sprintf("%s/post/%s", x.key, clauseName(e, i)), fmt.Sprintf("(=> (or %s false) %s)", strings.Join(conds, " "), term), "postcondition (error return)")
				continue
			}
			if strings.HasPrefix(e.Label, "ok.") {
				// an assertion about the success return only (may mention locals that exist only there)
				success := true
				for _, r := range res {
					if r.S == "Err" && r.T != "ErrNil" {
						success = false
					}
				}
				if !success {
					continue
				}
				// the clause may mention locals that exist only on some return paths: it is an assertion at
				// the returns where they exist (and must be evaluated on at least one path, see verify)
				term, okc := x.tryClause(ev, e)
				if !okc {
					continue
				}
				x.okEval[e.Label]++
				st.check(fmt.Sprintf("%s/post/%s", x.key, clauseName(e, i)), term, "postcondition (success return)")
				continue
			}
			st.check(fmt.Sprintf("%s/post/%s", x.key, clauseName(e, i)), ev.evalClause(e), "postcondition")
		}
	}
	x.frameCheck(st)
	x.finish(st, "return")
}

// tryClause evaluates a clause; ok=false if it mentions a name that does not exist on this path.
func (x *Exec) tryClause(ev *Env, c Clause) (term string, ok bool) {
	defer func() {
		if r := recover(); r != nil {
			if tl, isTL := r.(toolLimit); isTL && (strings.Contains(tl.msg, "unknown name") || strings.Contains(tl.msg, "was not entered on this path")) {
				ok = false
				return
			}
			panic(r)
		}
	}()
	return ev.evalClause(c), true
}

// frameCheck: every heap location that existed at entry and is not named by
// `assigns` is unchanged.
func (x *Exec) frameCheck(st *State) {
	U := x.U()
	allowed := newMods()
	if x.ct != nil {
		x.modsFromContract(st, x.fn, x.ct, func(name string) (Val, bool) {
			v, ok := st.frames[0].params[name]
			return v, ok
		}, allowed)
	}
	if allowed.All {
		return
	}
	var goals []string
	var gnames []string
	for _, hn := range st.heapNames() {
		if strings.HasPrefix(hn, "G:") {
			continue
		}
		cur := st.heaps[hn]
		init := hn + "@0"
		if cur == init {
			continue
		}
		am := allowed.Heaps[hn]
		if am != nil && am.Any {
			continue
		}
		var ex strings.Builder
		if am != nil {
			for _, b := range am.Bases {
				fmt.Fprintf(&ex, " (not (= r %s))", b)
			}
		}
		goals = append(goals, fmt.Sprintf("(forall ((r Int)) (=> (and (<= 0 r) (< r alloc@0)%s) (= (select %s r) (select %s r))))", ex.String(), cur, init))
		gnames = append(gnames, hn)
	}
	_ = U
	for i, g := range goals {
		st.check(x.key+"/frame", g, "nothing outside `assigns` is modified: "+gnames[i])
	}
}
