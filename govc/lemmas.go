package main

import (
	"fmt"
	"strings"
	"sync"
	"time"
)

// Lemma obligations: statements about specification functions only.  The
// solver never does induction on its own: `:induction x` makes the engine
// emit one obligation per case with the induction hypothesis as an assumption
//   - x of sort Int:  base (x <= 0) and step (x > 0, IH at x-1)
//   - x of sort Node: one case per constructor of the generated Node datatype,
//     IH for every Node-sorted field and for every element of Seq_Node fields.

type LemmaResult struct {
	Name    string
	Obs     map[string]*ObResult
	Scripts map[string]string
	Seconds float64
}

func (E *Engine) lemmaContext(m *SpecModule, upto *Lemma) string {
	var b strings.Builder
	// dependencies
	for _, d := range E.Spec.closure(m.Uses) {
		fmt.Fprintf(&b, "; ---- module %s\n%s", d.Name, d.Text)
	}
	fmt.Fprintf(&b, "; ---- module %s (up to lemma %s)\n", m.Name, upto.Name)
	for _, s := range m.Segs {
		if s.Lemma == upto {
			break
		}
		if s.Lemma != nil {
			fmt.Fprintf(&b, "; lemma %s\n(assert %s)\n", s.Lemma.Name, s.Lemma.Body)
		} else {
			b.WriteString(s.Text)
		}
	}
	return b.String()
}

func (E *Engine) proveLemma(m *SpecModule, l *Lemma) *LemmaResult {
	t0 := time.Now()
	lr := &LemmaResult{Name: "lemma/" + m.Name + "/" + l.Name, Obs: map[string]*ObResult{}, Scripts: map[string]string{}}
	body := l.Body
	var vars []*SX
	if body.head() == "forall" {
		vars = body.List[1].List
		body = body.List[2]
	}
	// strip pattern annotation of the lemma body for the goal
	if body.head() == "!" {
		body = body.List[1]
	}
	type cse struct {
		name string
		text string
	}
	var cases []cse
	decl := func(skip string) string {
		var b strings.Builder
		for _, v := range vars {
			if v.List[0].Atom == skip {
				continue
			}
			fmt.Fprintf(&b, "(declare-const %s %s)\n", v.List[0].Atom, v.List[1])
		}
		return b.String()
	}
	others := func(skip string, extra ...string) string {
		var parts []string
		for _, v := range vars {
			if v.List[0].Atom == skip {
				continue
			}
			parts = append(parts, v.String())
		}
		parts = append(parts, extra...)
		return strings.Join(parts, " ")
	}
	ih := func(x string, repl string, extraBinders string, guard string) string {
		inst := body.subst(map[string]*SX{x: atom(repl)})
		binders := others(x)
		if extraBinders != "" {
			binders = strings.TrimSpace(binders + " " + extraBinders)
		}
		t := inst.String()
		if guard != "" {
			t = fmt.Sprintf("(=> %s %s)", guard, t)
		}
		if binders == "" {
			return fmt.Sprintf("(assert %s)\n", t)
		}
		return fmt.Sprintf("(assert (forall (%s) %s))\n", binders, t)
	}
	goal := fmt.Sprintf("(assert (not %s))\n(check-sat)\n", body)
	if l.Induct == "" {
		cases = append(cases, cse{"", decl("") + goal})
	} else {
		var xs string
		for _, v := range vars {
			if v.List[0].Atom == l.Induct {
				xs = v.List[1].String()
			}
		}
		x := l.Induct
		switch xs {
		case "Int":
			lower := "0"
			if l.Lower != nil {
				lower = l.Lower.String()
			}
			cases = append(cases, cse{"/base", decl("") + fmt.Sprintf("(assert (<= %s %s))\n", x, lower) + goal})
			cases = append(cases, cse{"/step", decl("") + fmt.Sprintf("(assert (> %s %s))\n", x, lower) + ih(x, fmt.Sprintf("(- %s 1)", x), "", "") + goal})
		case "Node":
			U := E.U
			cases = append(cases, cse{"/case/nilN", decl("") + fmt.Sprintf("(assert (= %s nilN))\n", x) + goal})
			cases = append(cases, cse{"/case/nilp", decl("") + fmt.Sprintf("(assert ((_ is nilp) %s))\n", x) + goal})
			for _, si := range U.nodeTys {
				var b strings.Builder
				b.WriteString(decl(""))
				fmt.Fprintf(&b, "(assert ((_ is mk_%s) %s))\n", si.Name, x)
				for _, f := range si.Fields {
					sel := fmt.Sprintf("(%s.%s %s)", si.Name, f.Name, x)
					switch f.Sort {
					case "Node":
						b.WriteString(ih(x, sel, "", ""))
					case "Seq_Node":
						b.WriteString(ih(x, fmt.Sprintf("(Seq_Node.nth %s ih_i)", sel), "(ih_i Int)", fmt.Sprintf("(and (<= 0 ih_i) (< ih_i (Seq_Node.len %s)))", sel)))
					}
				}
				b.WriteString(goal)
				cases = append(cases, cse{"/case/" + si.Name, b.String()})
			}
		default:
			cases = append(cases, cse{"", "(assert false) ; unsupported induction sort " + xs + "\n" + goal})
		}
	}
	ctx := E.lemmaContext(m, l)
	head := E.header(nil)
	var caseTexts []string
	for _, c := range cases {
		caseTexts = append(caseTexts, c.text)
	}
	lits := E.U.litDeclsFor(append(caseTexts, ctx)...)
	var wg sync.WaitGroup
	var mu sync.Mutex
	sem := make(chan struct{}, 16)
	for _, c := range cases {
		name := lr.Name + c.name
		script := head + lits + ctx + "; ---- lemma case\n(echo \"CHK 0\")\n" + c.text
		lr.Scripts[name] = script
		wg.Add(1)
		sem <- struct{}{}
		go func(name, script string) {
			defer wg.Done()
			defer func() { <-sem }()
			ob := &ObResult{Name: name, Func: "lemma", Subs: 1, BySolver: map[string]int{}}
			var notes []string
			// two rounds: every solver with a short limit first (most lemma cases take milliseconds on at least one
			// of them), then every solver with the full limit
			type attempt struct {
				s   solverSpec
				tmo int
			}
			var plan []attempt
			for _, s := range solvers {
				plan = append(plan, attempt{s, 2500})
			}
			for _, s := range solvers {
				plan = append(plan, attempt{s, E.TimeoutR})
			}
			for _, at := range plan {
				s := at.s
				r, raw := runSolver(s, at.tmo, script, 1, E.WorkDir, sanitize(name)+"."+s.name)
				st := "unknown"
				if r != nil && r[0] != "" {
					st = r[0]
				}
				notes = append(notes, s.name+": "+st)
				if strings.HasPrefix(st, "error") {
					notes = append(notes, firstLines(raw, 4))
				}
				if st == "unsat" {
					ob.Proved = true
					ob.BySolver[s.name]++
					break
				}
			}
			if !ob.Proved {
				ob.Fails = append(ob.Fails, SubResult{Check: Check{Ob: name, Note: "lemma"}, Status: "unknown", Detail: strings.Join(notes, "; ")})
			}
			mu.Lock()
			lr.Obs[name] = ob
			mu.Unlock()
		}(name, script)
	}
	wg.Wait()
	lr.Seconds = time.Since(t0).Seconds()
	return lr
}
