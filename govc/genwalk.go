package main

import (
	"fmt"
	"go/types"
	"strings"
)

// Traversal specification (oracle for C11), Appendix C of DESIGN.md.
//
// For every node type the table lists the children the visitor must see, in
// visiting order.  kind: "1" mandatory child, "?" child skipped when nil,
// "*" every element of a slice in order, "props" the (Name, Value?) pairs of
// RenderOperator.Props.  CallExpr.Func and JoinOperator.Flavor are the two
// documented exceptions.  RenderProperty is never visited as a node of its own.
// The engine refuses to run if a Node-typed field of any node struct is
// neither listed nor excluded, so a new field cannot be silently skipped.

type walkChild struct{ Field, Kind string }

var walkTable = map[string][]walkChild{
	"Ident":             {},
	"QualifiedIdent":    {{"Parts", "*"}},
	"TabularExpr":       {{"Source", "1"}, {"Operators", "*"}},
	"TableRef":          {{"Table", "1"}},
	"CountOperator":     {},
	"WhereOperator":     {{"Predicate", "1"}},
	"SortOperator":      {{"Terms", "*"}},
	"SortTerm":          {{"X", "1"}},
	"TakeOperator":      {{"RowCount", "1"}},
	"TopOperator":       {{"RowCount", "1"}, {"Col", "1"}},
	"ProjectOperator":   {{"Cols", "*"}},
	"ProjectColumn":     {{"Name", "1"}, {"X", "?"}},
	"ExtendOperator":    {{"Cols", "*"}},
	"ExtendColumn":      {{"Name", "?"}, {"X", "?"}},
	"SummarizeOperator": {{"Cols", "*"}, {"GroupBy", "*"}},
	"SummarizeColumn":   {{"Name", "?"}, {"X", "1"}},
	"JoinOperator":      {{"Right", "1"}, {"Conditions", "*"}},
	"AsOperator":        {{"Name", "1"}},
	"BinaryExpr":        {{"X", "1"}, {"Y", "1"}},
	"UnaryExpr":         {{"X", "1"}},
	"InExpr":            {{"X", "1"}, {"Vals", "*"}},
	"ParenExpr":         {{"X", "1"}},
	"BasicLit":          {},
	"CallExpr":          {{"Args", "*"}},
	"IndexExpr":         {{"X", "1"}, {"Index", "1"}},
	"LetStatement":      {{"Name", "1"}, {"X", "1"}},
	"RenderOperator":    {{"Props", "props"}, {"ChartType", "1"}},
}

var walkExcluded = map[string]bool{"CallExpr.Func": true, "JoinOperator.Flavor": true}

func (E *Engine) genWalk() string {
	U := E.U
	var b strings.Builder
	b.WriteString(`; vis(t, n): what the visitor answers for node n after history t (an arbitrary function)
(declare-fun vis (Seq_Node Node) Bool)
(define-fun isNilNode ((n Node)) Bool (or (= n nilN) ((_ is nilp) n)))
(declare-fun Pre (Node Seq_Node) Seq_Node)
(declare-fun PreOpt (Node Seq_Node) Seq_Node)
(declare-fun PKr (Seq_Node Int Seq_Node) Seq_Node)
(declare-fun PKprops (Seq_Node Int Seq_Node) Seq_Node)
(declare-fun PreS (Seq_Node Seq_Node) Seq_Node)
(assert (forall ((n Node) (t Seq_Node)) (! (= (PreOpt n t) (ite (isNilNode n) t (Pre n t))) :pattern ((PreOpt n t)))))
(assert (forall ((l Seq_Node) (i Int) (t Seq_Node)) (! (= (PKr l i t) (ite (>= i (Seq_Node.len l)) t (PKr l (+ i 1) (Pre (Seq_Node.nth l i) t)))) :pattern ((PKr l i t)))))
(assert (forall ((l Seq_Node) (i Int) (t Seq_Node)) (! (= (PKprops l i t) (ite (>= i (Seq_Node.len l)) t (PKprops l (+ i 1) (PreOpt (RenderProperty.Value (Seq_Node.nth l i)) (Pre (RenderProperty.Name (Seq_Node.nth l i)) t))))) :pattern ((PKprops l i t)))))
; the explicit stack: top of the stack is the last element
(assert (forall ((s Seq_Node) (t Seq_Node)) (! (= (PreS s t) (ite (<= (Seq_Node.len s) 0) t (PreS (Seq_Node.slice s 0 (- (Seq_Node.len s) 1)) (Pre (Seq_Node.nth s (- (Seq_Node.len s) 1)) t)))) :pattern ((PreS s t)))))
; well-formedness the traversal needs (and the parser owes, Appendix D): mandatory children are present
(declare-fun walkWF (Node) Bool)
(declare-fun walkWFL (Seq_Node Int) Bool)
(declare-fun walkWFprops (Seq_Node Int) Bool)
(define-fun walkWFopt ((n Node)) Bool (or (= n nilN) (walkWF n)))
(assert (forall ((l Seq_Node) (n Int)) (! (= (walkWFL l n) (ite (<= n 0) true (and (walkWFL l (- n 1)) (walkWF (Seq_Node.nth l (- n 1)))))) :pattern ((walkWFL l n)))))
(assert (forall ((l Seq_Node) (n Int)) (! (= (walkWFprops l n) (ite (<= n 0) true (and (walkWFprops l (- n 1)) ((_ is mk_RenderProperty) (Seq_Node.nth l (- n 1))) (walkWF (RenderProperty.Name (Seq_Node.nth l (- n 1)))) (walkWFopt (RenderProperty.Value (Seq_Node.nth l (- n 1))))))) :pattern ((walkWFprops l n)))))
(assert (= (walkWF nilN) false))
(assert (forall ((t Int)) (! (= (walkWF (nilp t)) false) :pattern ((walkWF (nilp t))))))
; size: a measure for the explicit-stack loop
(declare-fun size (Node) Int)
(declare-fun lsizeFrom (Seq_Node Int) Int)
(declare-fun psizeFrom (Seq_Node Int) Int)
(declare-fun stackSize (Seq_Node) Int)
; number of stack slots the properties l[i..] occupy: the name, and the value when present
(declare-fun pcountFrom (Seq_Node Int) Int)
(assert (forall ((l Seq_Node) (i Int)) (! (= (pcountFrom l i) (ite (>= i (Seq_Node.len l)) 0 (+ 1 (ite (= (RenderProperty.Value (Seq_Node.nth l i)) nilN) 0 1) (pcountFrom l (+ i 1))))) :pattern ((pcountFrom l i)))))
(assert (forall ((l Seq_Node) (i Int)) (! (>= (pcountFrom l i) 0) :pattern ((pcountFrom l i)))))
(assert (forall ((n Node)) (! (>= (size n) 0) :pattern ((size n)))))
(assert (= (size nilN) 0))
(assert (forall ((l Seq_Node) (i Int)) (! (= (lsizeFrom l i) (ite (>= i (Seq_Node.len l)) 0 (+ (size (Seq_Node.nth l i)) (lsizeFrom l (+ i 1))))) :pattern ((lsizeFrom l i)))))
(assert (forall ((l Seq_Node) (i Int)) (! (= (psizeFrom l i) (ite (>= i (Seq_Node.len l)) 0 (+ (size (RenderProperty.Name (Seq_Node.nth l i))) (size (RenderProperty.Value (Seq_Node.nth l i))) (psizeFrom l (+ i 1))))) :pattern ((psizeFrom l i)))))
(assert (forall ((s Seq_Node)) (! (= (stackSize s) (ite (<= (Seq_Node.len s) 0) 0 (+ (stackSize (Seq_Node.slice s 0 (- (Seq_Node.len s) 1))) (size (Seq_Node.nth s (- (Seq_Node.len s) 1)))))) :pattern ((stackSize s)))))
(assert (forall ((s Seq_Node)) (! (>= (stackSize s) 0) :pattern ((stackSize s)))))
(assert (forall ((l Seq_Node) (i Int)) (! (>= (lsizeFrom l i) 0) :pattern ((lsizeFrom l i)))))
(assert (forall ((l Seq_Node) (i Int)) (! (>= (psizeFrom l i) 0) :pattern ((psizeFrom l i)))))
`)
	// completeness of the table w.r.t. the types
	for _, si := range U.nodeTys {
		tab, ok := walkTable[si.Name]
		if !ok && si.Name != "RenderProperty" {
			panic(toolLimit{"traversal table has no entry for node type " + si.Name})
		}
		listed := map[string]bool{}
		for _, c := range tab {
			listed[c.Field] = true
		}
		if si.Name == "RenderProperty" {
			continue
		}
		for _, f := range si.Fields {
			if (f.Sort == "Node" || f.Sort == "Seq_Node") && !listed[f.Name] && !walkExcluded[si.Name+"."+f.Name] {
				panic(toolLimit{fmt.Sprintf("field %s.%s holds nodes but the traversal table neither lists nor excludes it", si.Name, f.Name)})
			}
		}
	}
	for _, si := range U.nodeTys {
		if si.Name == "RenderProperty" {
			continue
		}
		var binders, args []string
		for i, f := range si.Fields {
			binders = append(binders, fmt.Sprintf("(f%d %s)", i, f.Sort))
			args = append(args, fmt.Sprintf("f%d", i))
		}
		ctor := "mk_" + si.Name
		if len(args) > 0 {
			ctor = "(mk_" + si.Name + " " + strings.Join(args, " ") + ")"
		}
		fidx := func(name string) string {
			for i, f := range si.Fields {
				if f.Name == name {
					return fmt.Sprintf("f%d", i)
				}
			}
			panic(toolLimit{"traversal table names unknown field " + si.Name + "." + name})
		}
		t := fmt.Sprintf("(Seq_Node.snoc t %s)", ctor)
		var wf []string
		sz := "1"
		for _, c := range walkTable[si.Name] {
			f := fidx(c.Field)
			switch c.Kind {
			case "1":
				t = fmt.Sprintf("(Pre %s %s)", f, t)
				wf = append(wf, fmt.Sprintf("(walkWF %s)", f))
				sz = fmt.Sprintf("(+ %s (size %s))", sz, f)
			case "?":
				t = fmt.Sprintf("(PreOpt %s %s)", f, t)
				// an absent optional child is the nil of its static type (nil pointer / nil interface)
				isPtr := false
				for _, fi := range si.Fields {
					if fi.Name == c.Field {
						_, isPtr = fi.Type.Underlying().(*types.Pointer)
					}
				}
				if isPtr {
					wf = append(wf, fmt.Sprintf("(or ((_ is nilp) %s) (walkWF %s))", f, f))
				} else {
					wf = append(wf, fmt.Sprintf("(or (= %s nilN) (walkWF %s))", f, f))
				}
				sz = fmt.Sprintf("(+ %s (size %s))", sz, f)
			case "*":
				t = fmt.Sprintf("(PKr %s 0 %s)", f, t)
				wf = append(wf, fmt.Sprintf("(walkWFL %s (Seq_Node.len %s))", f, f))
				sz = fmt.Sprintf("(+ %s (lsizeFrom %s 0))", sz, f)
			case "props":
				t = fmt.Sprintf("(PKprops %s 0 %s)", f, t)
				wf = append(wf, fmt.Sprintf("(walkWFprops %s (Seq_Node.len %s))", f, f))
				sz = fmt.Sprintf("(+ %s (psizeFrom %s 0))", sz, f)
			}
		}
		w := "true"
		if len(wf) > 0 {
			w = "(and " + strings.Join(wf, " ") + ")"
		}
		pre := fmt.Sprintf("(= (Pre %s t) (ite (vis t %s) %s (Seq_Node.snoc t %s)))", ctor, ctor, t, ctor)
		bs := strings.Join(append(append([]string{}, binders...), "(t Seq_Node)"), " ")
		fmt.Fprintf(&b, "(assert (forall (%s) (! %s :pattern ((Pre %s t)))))\n", bs, pre, ctor)
		if len(binders) == 0 {
			fmt.Fprintf(&b, "(assert (= (walkWF %s) %s))\n(assert (= (size %s) %s))\n", ctor, w, ctor, sz)
		} else {
			fmt.Fprintf(&b, "(assert (forall (%s) (! (= (walkWF %s) %s) :pattern ((walkWF %s)))))\n", strings.Join(binders, " "), ctor, w, ctor)
			fmt.Fprintf(&b, "(assert (forall (%s) (! (= (size %s) %s) :pattern ((size %s)))))\n", strings.Join(binders, " "), ctor, sz, ctor)
		}
	}
	b.WriteString(`(lemma walkWFL-nth :induction n (forall ((l Seq_Node) (n Int) (i Int)) (! (=> (and (walkWFL l n) (<= 0 i) (< i n)) (walkWF (Seq_Node.nth l i))) :pattern ((walkWFL l n) (Seq_Node.nth l i)))))
(lemma walkWFL-snoc :induction n (forall ((l Seq_Node) (x Node) (n Int)) (! (=> (<= n (Seq_Node.len l)) (= (walkWFL (Seq_Node.snoc l x) n) (walkWFL l n))) :pattern ((walkWFL (Seq_Node.snoc l x) n)))))
(lemma walkWFL-slice :induction n (forall ((l Seq_Node) (k Int) (n Int)) (! (=> (and (<= n k) (<= k (Seq_Node.len l))) (= (walkWFL (Seq_Node.slice l 0 k) n) (walkWFL l n))) :pattern ((walkWFL (Seq_Node.slice l 0 k) n)))))
(lemma walkWFprops-snoc :induction n (forall ((l Seq_Node) (x Node) (n Int)) (! (=> (<= n (Seq_Node.len l)) (= (walkWFprops (Seq_Node.snoc l x) n) (walkWFprops l n))) :pattern ((walkWFprops (Seq_Node.snoc l x) n)))))
(lemma walkWFprops-nth :induction n (forall ((l Seq_Node) (n Int) (i Int)) (! (=> (and (walkWFprops l n) (<= 0 i) (< i n)) (and ((_ is mk_RenderProperty) (Seq_Node.nth l i)) (walkWF (RenderProperty.Name (Seq_Node.nth l i))) (walkWFopt (RenderProperty.Value (Seq_Node.nth l i))))) :pattern ((walkWFprops l n) (Seq_Node.nth l i)))))
`)
	// RenderProperty is never a node of its own in a statement tree
	b.WriteString("(assert (forall ((n Node)) (! (=> ((_ is mk_RenderProperty) n) (= (walkWF n) false)) :pattern ((walkWF n)))))\n")
	return b.String()
}
