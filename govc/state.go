package main

import (
	"fmt"
	"go/types"
	"sort"
	"strings"

	"golang.org/x/tools/go/ssa"
)

// Val is a symbolic value: an SMT term of a sort, or something tracked on the
// Go side only (an address, a tuple, a known function value).
type Val struct {
	S     string     // SMT sort ("" for Go-side-only values)
	T     string     // SMT term
	GT    types.Type // static Go type when known
	A     *Addr      // address value
	Tup   []Val      // tuple
	Fn    *FnVal     // statically known function value
	Elems []Val      // for sequence values built from a local array: the elements (T is also set)
	Inner *Val       // interface value wrapping this (for io.Writer(*strings.Builder) etc.)
	// a sequence whose last elements are pointers to local records that are still under construction:
	// the term is LazyBase with LazyTail appended, each element read when the term is needed (T is "")
	LazyBase string
	LazyTail []Val
}

type FnVal struct {
	Fn       *ssa.Function
	Bindings []Val
}

// Addr is a pointer the engine tracks structurally.
type Addr struct {
	ObjID int        // >0: local object
	Ref   string     // heap reference term (ObjID==0, Glob==nil)
	SI    *StructInfo // struct type of the heap object (for Ref)
	Glob  *ssa.Global
	Path  []int      // field / element path inside the object
	T     types.Type // type of the location pointed to
}

type objKind int

const (
	objCell objKind = iota
	objStruct
	objArray
)

// Obj is a local object: a cell, an array, or a struct under construction
// (value-regime node, record, by-value sum member).
type Obj struct {
	ID     int
	T      types.Type
	Kind   objKind
	SI     *StructInfo
	Vals   []Val
	Frozen bool
	Alloc  ssa.Value
}

func (o *Obj) clone() *Obj {
	n := *o
	n.Vals = append([]Val(nil), o.Vals...)
	return &n
}

type Frame struct {
	fn       *ssa.Function
	regs     map[ssa.Value]Val
	vars     map[string]Val
	defers   []Val
	prev     *ssa.BasicBlock
	params   map[string]Val
	oldHeaps map[string]string
	oldAlloc string
	variant  map[int][]string // loop ordinal -> measure terms at loop head
	visits   map[*ssa.BasicBlock]int
	loopSnap map[int]*loopSnapshot // state at the entry of a loop (for atloop(k, e))
	entryMeasure []string
	top      bool
	skipPhis bool
	fnval    *FnVal
}

func (f *Frame) clone() *Frame {
	n := *f
	n.regs = make(map[ssa.Value]Val, len(f.regs))
	for k, v := range f.regs {
		n.regs[k] = v
	}
	n.vars = make(map[string]Val, len(f.vars))
	for k, v := range f.vars {
		n.vars[k] = v
	}
	n.defers = append([]Val(nil), f.defers...)
	n.variant = make(map[int][]string, len(f.variant))
	for k, v := range f.variant {
		n.variant[k] = v
	}
	if f.visits != nil {
		n.visits = make(map[*ssa.BasicBlock]int, len(f.visits))
		for k, v := range f.visits {
			n.visits[k] = v
		}
	}
	if f.loopSnap != nil {
		n.loopSnap = make(map[int]*loopSnapshot, len(f.loopSnap))
		for k, v := range f.loopSnap {
			n.loopSnap[k] = v
		}
	}
	return &n
}

type loopSnapshot struct {
	heaps map[string]string
	vars  map[string]Val
	objs  map[int]*Obj
}

type Check struct {
	ID    int
	Ob    string // obligation name
	Note  string
	Guard bool // vacuity guard: the expected answer is "not unsat"
}

type State struct {
	frames  []*Frame
	objs    map[int]*Obj
	heaps   map[string]string // heap name -> current version term
	heapSort map[string]string
	heapAt  map[string]string // heap name -> allocation counter when the current version was created (every reference stored in it is below)
	alloc   string
	sb      *strings.Builder
	checks  []Check
	nfresh  int
	nobj    int
	trace   []string // block trace for diagnostics
	dead    bool
	guards  map[string]int
	proved  map[string]bool
	facts   map[string]*bounds
	infeasible bool
	guardCount *map[string]int // shared by all paths of one function
}

func (st *State) clone() *State {
	n := &State{objs: make(map[int]*Obj, len(st.objs)), heaps: make(map[string]string, len(st.heaps)),
		heapSort: st.heapSort, alloc: st.alloc, nfresh: st.nfresh, nobj: st.nobj, guardCount: st.guardCount}
	for _, f := range st.frames {
		n.frames = append(n.frames, f.clone())
	}
	for k, o := range st.objs {
		n.objs[k] = o.clone()
	}
	for k, v := range st.heaps {
		n.heaps[k] = v
	}
	if st.proved != nil {
		n.proved = make(map[string]bool, len(st.proved))
		for k := range st.proved {
			n.proved[k] = true
		}
	}
	n.facts = st.cloneFacts()
	n.sb = &strings.Builder{}
	n.sb.WriteString(st.sb.String())
	n.checks = append([]Check(nil), st.checks...)
	n.trace = append([]string(nil), st.trace...)
	return n
}

func (st *State) top() *Frame { return st.frames[len(st.frames)-1] }

func (st *State) emit(format string, a ...any) {
	fmt.Fprintf(st.sb, format, a...)
	st.sb.WriteByte('\n')
}

func (st *State) fresh(hint, sortName string) string {
	st.nfresh++
	hint = sanitize(hint)
	name := fmt.Sprintf("%s!%d", hint, st.nfresh)
	st.emit("(declare-const %s %s)", name, sortName)
	return name
}

func sanitize(s string) string {
	var b strings.Builder
	for _, r := range s {
		if r >= 'a' && r <= 'z' || r >= 'A' && r <= 'Z' || r >= '0' && r <= '9' || r == '_' || r == '.' {
			b.WriteRune(r)
		} else {
			b.WriteByte('_')
		}
	}
	if b.Len() == 0 {
		return "v"
	}
	return b.String()
}

func (st *State) assume(term string) {
	if term == "" || term == "true" {
		return
	}
	st.emit("(assert %s)", term)
	if !st.learn(term) {
		st.infeasible = true
	}
}

func (st *State) check(ob, term, note string) {
	if term != "false" {
		if st.proved == nil {
			st.proved = map[string]bool{}
		}
		if st.proved[term] {
			return
		}
		st.proved[term] = true
	}
	id := len(st.checks)
	st.checks = append(st.checks, Check{ID: id, Ob: ob, Note: note})
	if term == "true" {
		st.emit("(echo \"CHK %d\")\n(echo \"unsat\")", id)
		return
	}
	st.emit("(echo \"CHK %d\")\n(push 1)\n(assert (not %s))\n(check-sat)\n(pop 1)", id, term)
	st.assume(term)
}

// guard emits a satisfiability probe of the assumptions so far (vacuity guard).
func (st *State) guard(ob, note string) {
	if st.guards == nil {
		st.guards = map[string]int{}
	}
	if *st.guardCount == nil {
		*st.guardCount = map[string]int{}
	}
	if (*st.guardCount)[ob] >= 2 {
		return
	}
	(*st.guardCount)[ob]++
	id := len(st.checks)
	st.checks = append(st.checks, Check{ID: id, Ob: ob, Note: note, Guard: true})
	st.emit("(echo \"CHK %d\")\n(push 1)\n(set-option :timeout 700)\n(check-sat)\n(set-option :timeout @TMO@)\n(pop 1)", id)
}

// ---- heaps -----------------------------------------------------------------

func heapName(si *StructInfo, field int) string {
	return "H." + si.Name + "." + si.Fields[field].Name
}

func (st *State) heap(name, valSort string) string {
	if t, ok := st.heaps[name]; ok {
		return t
	}
	t := name + "@0"
	st.emit("(declare-const %s (Array Int %s))", t, valSort)
	st.heaps[name] = t
	st.heapSort[name] = valSort
	if st.heapAt == nil {
		st.heapAt = map[string]string{}
	}
	st.heapAt[name] = "alloc@0"
	return t
}

func (st *State) setHeap(name, valSort, newTerm string) {
	st.heap(name, valSort)
	st.nfresh++
	t := fmt.Sprintf("%s@%d", name, st.nfresh)
	st.emit("(declare-const %s (Array Int %s))", t, valSort)
	if newTerm != "" {
		st.emit("(assert (= %s %s))", t, newTerm)
	}
	st.heaps[name] = t
	if st.heapAt == nil {
		st.heapAt = map[string]string{}
	}
	st.heapAt[name] = st.alloc
}

func (st *State) heapNames() []string {
	var ns []string
	for n := range st.heaps {
		ns = append(ns, n)
	}
	sort.Strings(ns)
	return ns
}
