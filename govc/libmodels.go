package main

import (
	"sync"
	"go/types"
	"fmt"
	"strings"

	"golang.org/x/tools/go/ssa"
)

// Assumed contracts of library functions (assumption A5 of DESIGN.md). Every
// model that is actually used by a check is listed in its evidence file.

type libModel struct {
	doc  string
	run  func(x *Exec, st *State, args []Val, site ssa.Instruction) []Val
	mods func(x *Exec, args []Val, known []bool, m *Mods)
}

var libModels = map[string]*libModel{}

const builderHeap = "H.strings.Builder.out"

// ghost content of io.Writer values that are not strings.Builders, indexed by writerId(w)
const writerHeap = "H.io.Writer.out"

// ghost state of a *bufio.Scanner: the reader it scans and the number of lines delivered so far.
// bufio.lines(r) is the sequence of lines the scanner delivers from reader r before Scan returns false,
// bufio.err(r) the error Err() reports afterwards (nil at a clean end of input).
const scanSrcHeap = "H.bufio.Scanner.src"
const scanIdxHeap = "H.bufio.Scanner.idx"

func builderMods(x *Exec, args []Val, known []bool, m *Mods) {
	if len(args) > 0 && known[0] && args[0].S == "@fresh" {
		m.heapMod(builderHeap, "Out").Alloc = true
	} else if len(args) > 0 && known[0] && args[0].T != "" {
		m.addBase(builderHeap, "Out", args[0].T)
	} else {
		m.heapMod(builderHeap, "Out").Any = true
	}
}

func (x *Exec) builderOut(st *State, sb Val) (string, string) {
	r := x.term(st, sb, false)
	h := st.heap(builderHeap, "Out")
	return r, fmt.Sprintf("(select %s %s)", h, r)
}

func (x *Exec) setBuilderOut(st *State, ref, out string) {
	h := st.heap(builderHeap, "Out")
	st.setHeap(builderHeap, "Out", fmt.Sprintf("(store %s %s %s)", h, ref, out))
}

func (U *Universe) litText(c string) (string, bool) {
	if c == "Str.empty" {
		return "", true
	}
	for s, n := range U.lits {
		if n == c {
			return s, true
		}
	}
	return "", false
}

func outAppendStr(U *Universe, out, term string) string {
	if s, ok := U.litText(term); ok {
		for i := 0; i < len(s); i++ {
			out = fmt.Sprintf("(OByte %s %d)", out, s[i])
		}
		return out
	}
	return fmt.Sprintf("(OStr %s %s)", out, term)
}

func init() {
	pure := func(doc string, f func(x *Exec, st *State, args []Val, site ssa.Instruction) []Val) *libModel {
		return &libModel{doc: doc, run: f}
	}
	errNil := Val{S: "Err", T: "ErrNil"}
	libModels["strings.(*Builder).WriteString"] = &libModel{doc: "appends its argument to the builder content", mods: builderMods,
		run: func(x *Exec, st *State, a []Val, site ssa.Instruction) []Val {
			r, out := x.builderOut(st, a[0])
			st.check(x.key+"/safety/nil", fmt.Sprintf("(not (= %s 0))", r), "nil *strings.Builder at "+x.pos(site.Pos()))
			s := x.term(st, a[1], false)
			x.setBuilderOut(st, r, outAppendStr(x.U(), out, s))
			return []Val{{S: "Int", T: fmt.Sprintf("(Str.len %s)", s)}, errNil}
		}}
	libModels["strings.(*Builder).WriteByte"] = &libModel{doc: "appends one byte", mods: builderMods,
		run: func(x *Exec, st *State, a []Val, site ssa.Instruction) []Val {
			r, out := x.builderOut(st, a[0])
			st.check(x.key+"/safety/nil", fmt.Sprintf("(not (= %s 0))", r), "nil *strings.Builder at "+x.pos(site.Pos()))
			x.setBuilderOut(st, r, fmt.Sprintf("(OByte %s %s)", out, x.term(st, a[1], false)))
			return []Val{errNil}
		}}
	libModels["strings.(*Builder).WriteRune"] = &libModel{doc: "appends the UTF-8 encoding of a rune (one byte below 0x80)", mods: builderMods,
		run: func(x *Exec, st *State, a []Val, site ssa.Instruction) []Val {
			r, out := x.builderOut(st, a[0])
			st.check(x.key+"/safety/nil", fmt.Sprintf("(not (= %s 0))", r), "nil *strings.Builder at "+x.pos(site.Pos()))
			x.setBuilderOut(st, r, fmt.Sprintf("(ORune %s %s)", out, x.term(st, a[1], false)))
			return []Val{{S: "Int", T: st.fresh("n", "Int")}, errNil}
		}}
	libModels["strings.(*Builder).Write"] = &libModel{doc: "appends bytes", mods: builderMods,
		run: func(x *Exec, st *State, a []Val, site ssa.Instruction) []Val {
			r, out := x.builderOut(st, a[0])
			s := x.term(st, a[1], false)
			x.setBuilderOut(st, r, fmt.Sprintf("(OStr %s %s)", out, s))
			return []Val{{S: "Int", T: fmt.Sprintf("(Str.len %s)", s)}, errNil}
		}}
	libModels["strings.(*Builder).String"] = pure("content as a string: Out.str(out)", func(x *Exec, st *State, a []Val, site ssa.Instruction) []Val {
		_, out := x.builderOut(st, a[0])
		return []Val{{S: "Str", T: fmt.Sprintf("(Out.str %s)", out)}}
	})
	libModels["strings.(*Builder).Len"] = pure("length of content", func(x *Exec, st *State, a []Val, site ssa.Instruction) []Val {
		_, out := x.builderOut(st, a[0])
		return []Val{{S: "Int", T: fmt.Sprintf("(Str.len (Out.str %s))", out)}}
	})
	libModels["strings.(*Builder).Grow"] = pure("no observable effect", func(x *Exec, st *State, a []Val, site ssa.Instruction) []Val {
		n := x.term(st, a[1], false)
		st.check(x.key+"/safety/panic", fmt.Sprintf("(>= %s 0)", n), "strings.Builder.Grow with negative count at "+x.pos(site.Pos()))
		return nil
	})
	libModels["strings.(*Builder).Reset"] = &libModel{doc: "empties the builder", mods: builderMods,
		run: func(x *Exec, st *State, a []Val, site ssa.Instruction) []Val {
			r, _ := x.builderOut(st, a[0])
			x.setBuilderOut(st, r, "OEmpty")
			return nil
		}}
	libModels["unicode/utf8.DecodeRuneInString"] = pure("utf8.rune/utf8.size: ASCII byte is itself with width 1; otherwise rune >= 0x80, 1 <= width <= 4, width <= len", func(x *Exec, st *State, a []Val, site ssa.Instruction) []Val {
		s := x.term(st, a[0], false)
		x.E.needUTF8 = true
		return []Val{{S: "Int", T: fmt.Sprintf("(utf8.rune %s)", s)}, {S: "Int", T: fmt.Sprintf("(utf8.size %s)", s)}}
	})
	libModels["unicode.IsSpace"] = pure("exact below U+0100 (9-13, 32, 0x85, 0xA0), uninterpreted above", func(x *Exec, st *State, a []Val, site ssa.Instruction) []Val {
		return []Val{{S: "Bool", T: fmt.Sprintf("(unicode.IsSpace %s)", x.term(st, a[0], false))}}
	})
	freshStr := func(name string) func(x *Exec, st *State, a []Val, site ssa.Instruction) []Val {
		return func(x *Exec, st *State, a []Val, site ssa.Instruction) []Val {
			return []Val{{S: "Str", T: st.fresh(name, "Str")}}
		}
	}
	libModels["fmt.Sprintf"] = pure("returns some string", freshStr("sprintf"))
	libModels["fmt.Sprint"] = pure("returns some string", freshStr("sprint"))
	freshErr := func(x *Exec, st *State, a []Val, site ssa.Instruction) []Val {
		return []Val{{S: "Err", T: fmt.Sprintf("(EOther %s)", st.fresh("errid", "Int"))}}
	}
	libModels["fmt.Errorf"] = pure("returns a non-nil error that is not a notFoundError chain unless %w wraps one (callers here never test it)", freshErr)
	libModels["errors.New"] = pure("returns a non-nil opaque error", freshErr)
	libModels["errors.Join"] = pure("for a non-empty list of non-nil errors: the join of exactly that list", func(x *Exec, st *State, a []Val, site ssa.Instruction) []Val {
		l := x.term(st, a[0], false)
		r := st.fresh("joined", "Err")
		st.assume(fmt.Sprintf("(=> (and (> (Seq_Err.len %s) 0) (forall ((i Int)) (=> (and (<= 0 i) (< i (Seq_Err.len %s))) (not (= (Seq_Err.nth %s i) ErrNil))))) (= %s (EJoin %s)))", l, l, l, r, l))
		st.assume(fmt.Sprintf("(=> (= (Seq_Err.len %s) 0) (= %s ErrNil))", l, r))
		return []Val{{S: "Err", T: r}}
	})
	libModels["bufio.NewScanner"] = &libModel{doc: "a new scanner over the reader: delivers bufio.lines(r) one by one, then reports bufio.err(r)",
		mods: func(x *Exec, args []Val, known []bool, m *Mods) { m.All = true },
		run: func(x *Exec, st *State, a []Val, site ssa.Instruction) []Val {
			r := st.fresh("scanref", "Int")
			st.assume(fmt.Sprintf("(= %s %s)", r, st.alloc))
			na := st.fresh("alloc", "Int")
			st.assume(fmt.Sprintf("(= %s (+ %s 1))", na, st.alloc))
			st.alloc = na
			src := st.heap(scanSrcHeap, "Any")
			st.setHeap(scanSrcHeap, "Any", fmt.Sprintf("(store %s %s %s)", src, r, x.term(st, a[0], true)))
			idx := st.heap(scanIdxHeap, "Int")
			st.setHeap(scanIdxHeap, "Int", fmt.Sprintf("(store %s %s 0)", idx, r))
			return []Val{{S: "Int", T: r, GT: site.(*ssa.Call).Type()}}
		}}
	scanMods := func(x *Exec, args []Val, known []bool, m *Mods) {
		if len(args) > 0 && known[0] && args[0].T != "" {
			m.addBase(scanIdxHeap, "Int", args[0].T)
		} else {
			m.heapMod(scanIdxHeap, "Int").Any = true
		}
	}
	libModels["bufio.(*Scanner).Scan"] = &libModel{doc: "true and advances while lines remain; false afterwards", mods: scanMods,
		run: func(x *Exec, st *State, a []Val, site ssa.Instruction) []Val {
			r := x.term(st, a[0], false)
			st.check(x.key+"/safety/nil", fmt.Sprintf("(not (= %s 0))", r), "nil *bufio.Scanner at "+x.pos(site.Pos()))
			src := fmt.Sprintf("(select %s %s)", st.heap(scanSrcHeap, "Any"), r)
			idxh := st.heap(scanIdxHeap, "Int")
			idx := fmt.Sprintf("(select %s %s)", idxh, r)
			more := fmt.Sprintf("(< %s (Seq_Str.len (bufio.lines %s)))", idx, src)
			st.setHeap(scanIdxHeap, "Int", fmt.Sprintf("(store %s %s (ite %s (+ %s 1) %s))", idxh, r, more, idx, idx))
			return []Val{{S: "Bool", T: more}}
		}}
	libModels["bufio.(*Scanner).Bytes"] = pure("the line most recently delivered by Scan (as bytes: modelled as a string)", func(x *Exec, st *State, a []Val, site ssa.Instruction) []Val {
		r := x.term(st, a[0], false)
		src := fmt.Sprintf("(select %s %s)", st.heap(scanSrcHeap, "Any"), r)
		idx := fmt.Sprintf("(select %s %s)", st.heap(scanIdxHeap, "Int"), r)
		return []Val{{S: "Str", T: fmt.Sprintf("(Seq_Str.nth (bufio.lines %s) (- %s 1))", src, idx)}}
	})
	libModels["bufio.(*Scanner).Text"] = libModels["bufio.(*Scanner).Bytes"]
	libModels["bufio.(*Scanner).Err"] = pure("the error that ended the scan: bufio.err(r), nil at a clean end of input", func(x *Exec, st *State, a []Val, site ssa.Instruction) []Val {
		r := x.term(st, a[0], false)
		src := fmt.Sprintf("(select %s %s)", st.heap(scanSrcHeap, "Any"), r)
		return []Val{{S: "Err", T: fmt.Sprintf("(bufio.err %s)", src)}}
	})
	libModels["fmt.Fprintf"] = &libModel{doc: "appends some string to a strings.Builder writer; other writers are not modelled",
		mods: func(x *Exec, args []Val, known []bool, m *Mods) {
			m.heapMod(builderHeap, "Out").Any = true
			m.heapMod(writerHeap, "Out").Any = true
		},
		run: func(x *Exec, st *State, a []Val, site ssa.Instruction) []Val {
			if pk := x.pkgOf(x.fn); pk != nil && pk.Path() == modPath {
				// package pql writes formatted text into the SQL only for its internal placeholders
				// ("NULL /* unhandled ... */"): these must be unreachable (C05)
				st.check(x.key+"/unreachable/placeholder", "false", "an internal placeholder would reach the output at "+x.pos(site.Pos()))
			}
			isBuilder := false
			if a[0].Inner != nil && a[0].Inner.GT != nil {
				if pt, ok := a[0].Inner.GT.Underlying().(*types.Pointer); ok {
					if nt, ok := pt.Elem().(*types.Named); ok && nt.Obj().Pkg() != nil && nt.Obj().Pkg().Path() == "strings" && nt.Obj().Name() == "Builder" {
						isBuilder = true
					}
				}
			}
			if a[0].Inner != nil && a[0].Inner.S == "Int" && (isBuilder || a[0].Inner.GT == nil) {
				r, out := x.builderOut(st, *a[0].Inner)
				x.setBuilderOut(st, r, fmt.Sprintf("(OStr %s %s)", out, st.fresh("fprintf", "Str")))
			} else if a[0].S == "Any" && a[0].Inner == nil {
				// some other writer: ghost content. The one format the command-line tool uses is modelled
				// exactly ("%s\n\n" with one string operand); anything else appends an unknown string
					w := fmt.Sprintf("(writerId %s)", x.term(st, a[0], true))
				h := st.heap(writerHeap, "Out")
				cur := fmt.Sprintf("(select %s %s)", h, w)
				nw := fmt.Sprintf("(OStr %s %s)", cur, st.fresh("fprintf", "Str"))
				if len(a) >= 3 {
					if f, ok := x.U().litText(x.term(st, a[1], false)); ok && f == "%s\n\n" {
						if el := a[2].Elems; len(el) == 1 && el[0].Inner != nil && el[0].Inner.S == "Str" {
							nw = fmt.Sprintf("(OByte (OByte (OStr %s %s) 10) 10)", cur, x.term(st, *el[0].Inner, false))
						}
					}
				}
				st.setHeap(writerHeap, "Out", fmt.Sprintf("(store %s %s %s)", h, w, nw))
			}
			return []Val{{S: "Int", T: st.fresh("n", "Int")}, {S: "Err", T: st.fresh("werr", "Err")}}
		}}
	libModels["fmt.Fprintln"] = libModels["fmt.Fprintf"]
	libModels["strings.ReplaceAll"] = pure("uninterpreted function of its arguments", func(x *Exec, st *State, a []Val, site ssa.Instruction) []Val {
		return []Val{{S: "Str", T: fmt.Sprintf("(strings.ReplaceAll %s %s %s)", x.term(st, a[0], false), x.term(st, a[1], false), x.term(st, a[2], false))}}
	})
	libModels["strings.TrimLeft"] = pure("some suffix s[k:] of its argument (k uninterpreted)", func(x *Exec, st *State, a []Val, site ssa.Instruction) []Val {
		return []Val{{S: "Str", T: fmt.Sprintf("(strings.TrimLeft %s %s)", x.term(st, a[0], false), x.term(st, a[1], false))}}
	})
	libModels["strings.ContainsAny"] = pure("uninterpreted predicate", func(x *Exec, st *State, a []Val, site ssa.Instruction) []Val {
		return []Val{{S: "Bool", T: fmt.Sprintf("(strings.ContainsAny %s %s)", x.term(st, a[0], false), x.term(st, a[1], false))}}
	})
	libModels["strings.Count"] = pure("non-negative", func(x *Exec, st *State, a []Val, site ssa.Instruction) []Val {
		r := st.fresh("count", "Int")
		st.assume(fmt.Sprintf("(>= %s 0)", r))
		return []Val{{S: "Int", T: r}}
	})
	libModels["strings.Join"] = pure("returns some string", freshStr("joined"))
	libModels["strconv.ParseUint"] = pure("uninterpreted value and success flag, functions of the text and base", func(x *Exec, st *State, a []Val, site ssa.Instruction) []Val {
		s, b := x.term(st, a[0], false), x.term(st, a[1], false)
		ok := fmt.Sprintf("(strconv.ParseUint.ok %s %s)", s, b)
		return []Val{{S: "Int", T: fmt.Sprintf("(strconv.ParseUint.val %s %s)", s, b)}, {S: "Err", T: fmt.Sprintf("(ite %s ErrNil (EOther %s))", ok, st.fresh("errid", "Int"))}}
	})
	libModels["strconv.ParseInt"] = pure("uninterpreted value and success flag, functions of the text and base (distinct from ParseUint's)", func(x *Exec, st *State, a []Val, site ssa.Instruction) []Val {
		s, b := x.term(st, a[0], false), x.term(st, a[1], false)
		ok := fmt.Sprintf("(strconv.ParseInt.ok %s %s)", s, b)
		return []Val{{S: "Int", T: fmt.Sprintf("(strconv.ParseInt.val %s %s)", s, b)}, {S: "Err", T: fmt.Sprintf("(ite %s ErrNil (EOther %s))", ok, st.fresh("errid", "Int"))}}
	})
	libModels["strconv.FormatUint"] = pure("uninterpreted function of value and base; non-empty; base 10 yields decimal digits only", func(x *Exec, st *State, a []Val, site ssa.Instruction) []Val {
		return []Val{{S: "Str", T: fmt.Sprintf("(strconv.FormatUint %s %s)", x.term(st, a[0], false), x.term(st, a[1], false))}}
	})
	libModels["strconv.ParseFloat"] = pure("uninterpreted", func(x *Exec, st *State, a []Val, site ssa.Instruction) []Val {
		return []Val{{S: "Real", T: st.fresh("float", "Real")}, {S: "Err", T: st.fresh("perr", "Err")}}
	})
	libModels["slices.Clone"] = pure("a copy with the same elements", func(x *Exec, st *State, a []Val, site ssa.Instruction) []Val {
		return []Val{a[0]}
	})
	libModels["slices.Sort"] = pure("permutes its argument in place: afterwards the slice has the same length and unspecified order", func(x *Exec, st *State, a []Val, site ssa.Instruction) []Val {
		if c, ok := site.(*ssa.Call); ok {
			v := c.Common().Args[0]
			old := x.term(st, a[0], false)
			nv := st.fresh("sorted", a[0].S)
			st.assume(fmt.Sprintf("(= (%s.len %s) (%s.len %s))", a[0].S, nv, a[0].S, old))
			st.top().regs[v] = Val{S: a[0].S, T: nv, GT: a[0].GT}
		}
		return nil
	})
	libModels["maps.Clone"] = &libModel{doc: "nil for a nil map, otherwise a newly allocated map with the same entries",
		run: func(x *Exec, st *State, a []Val, site ssa.Instruction) []Val {
			c := site.(*ssa.Call)
			mt := c.Type().Underlying().(*types.Map)
			_, _, dn, vn, dsrt, vsrt := x.mapSorts(mt)
			m := x.term(st, a[0], false)
			r := st.fresh("mapref", "Int")
			st.assume(fmt.Sprintf("(= %s (ite (= %s 0) 0 %s))", r, m, st.alloc))
			na := st.fresh("alloc", "Int")
			st.assume(fmt.Sprintf("(= %s (+ %s 1))", na, st.alloc))
			st.alloc = na
			d := st.heap(dn, dsrt)
			v := st.heap(vn, vsrt)
			st.setHeap(dn, dsrt, fmt.Sprintf("(store %s %s (select %s %s))", d, r, d, m))
			st.setHeap(vn, vsrt, fmt.Sprintf("(store %s %s (select %s %s))", v, r, v, m))
			return []Val{{S: "Int", T: r, GT: c.Type()}}
		},
		mods: func(x *Exec, args []Val, known []bool, m *Mods) { m.All = true }}
	libModels["golang.org/x/exp/maps.Clone"] = libModels["maps.Clone"]
	libModels["golang.org/x/exp/maps.Keys"] = pure("some sequence of keys", func(x *Exec, st *State, a []Val, site ssa.Instruction) []Val {
		c := site.(*ssa.Call)
		s := x.U().sortOf(c.Type())
		return []Val{{S: s, T: st.fresh("keys", s)}}
	})
}

// pureStringsModel: any function of package strings whose parameters and results are strings, integers or
// booleans is a deterministic function of its arguments: modelled as an uninterpreted function (declared on
// demand), so code that starts using one stays inside the verifiable subset and its effect is "some function
// of the arguments the specification does not know".
var pureStringsFuncs = map[string]string{} // smt name -> declaration
var pureStringsMu sync.Mutex

func pureStringsModel(key string, sig *types.Signature, U *Universe) *libModel {
	if !(strings.HasPrefix(key, "strings.") || strings.HasPrefix(key, "strconv.")) || strings.Contains(key, "(") || sig == nil || sig.Recv() != nil || sig.Variadic() {
		return nil
	}
	basic := func(t types.Type) bool {
		b, ok := t.Underlying().(*types.Basic)
		return ok && b.Info()&(types.IsString|types.IsInteger|types.IsBoolean) != 0
	}
	var as []string
	for i := 0; i < sig.Params().Len(); i++ {
		if !basic(sig.Params().At(i).Type()) {
			return nil
		}
		as = append(as, U.sortOf(sig.Params().At(i).Type()))
	}
	if sig.Results().Len() != 1 || !basic(sig.Results().At(0).Type()) {
		return nil
	}
	rs := U.sortOf(sig.Results().At(0).Type())
	name := "lib." + key
	pureStringsMu.Lock()
	defer pureStringsMu.Unlock()
	pureStringsFuncs[name] = fmt.Sprintf("(declare-fun %s (%s) %s)\n", name, strings.Join(as, " "), rs)
	return &libModel{doc: "uninterpreted function of its arguments", run: func(x *Exec, st *State, a []Val, site ssa.Instruction) []Val {
		var ts []string
		for _, v := range a {
			ts = append(ts, x.term(st, v, false))
		}
		t := name
		if len(ts) > 0 {
			t = "(" + name + " " + strings.Join(ts, " ") + ")"
		}
		return []Val{{S: rs, T: t}}
	}}
}

func findLibModel(key string) *libModel {
	if m, ok := libModels[key]; ok {
		return m
	}
	if i := strings.Index(key, "["); i > 0 {
		if m, ok := libModels[key[:i]]; ok {
			return m
		}
	}
	return nil
}

const libPrelude = `; ---- assumed library vocabulary (A5)
(declare-fun utf8.rune (Str) Int)
(declare-fun utf8.size (Str) Int)
(assert (forall ((s Str)) (! (=> (> (Str.len s) 0) (and (>= (utf8.size s) 1) (<= (utf8.size s) 4) (<= (utf8.size s) (Str.len s)) (>= (utf8.rune s) 0) (<= (utf8.rune s) 1114111) (=> (< (Str.nth s 0) 128) (and (= (utf8.rune s) (Str.nth s 0)) (= (utf8.size s) 1))) (=> (>= (Str.nth s 0) 128) (>= (utf8.rune s) 128)))) :pattern ((utf8.size s)) :pattern ((utf8.rune s)))))
(assert (forall ((s Str)) (! (=> (= (Str.len s) 0) (and (= (utf8.size s) 0) (= (utf8.rune s) 65533))) :pattern ((utf8.size s)) :pattern ((utf8.rune s)))))
(declare-fun unicode.IsSpace (Int) Bool)
(assert (forall ((r Int)) (! (=> (and (<= 0 r) (< r 256)) (= (unicode.IsSpace r) (or (and (<= 9 r) (<= r 13)) (= r 32) (= r 133) (= r 160)))) :pattern ((unicode.IsSpace r)))))
(declare-fun strings.ReplaceAll (Str Str Str) Str)
(declare-fun strings.TrimLeft (Str Str) Str)
(declare-fun strings.TrimLeft.idx (Str Str) Int)
(assert (forall ((s Str) (c Str)) (! (and (<= 0 (strings.TrimLeft.idx s c)) (<= (strings.TrimLeft.idx s c) (Str.len s)) (= (strings.TrimLeft s c) (Str.slice s (strings.TrimLeft.idx s c) (Str.len s)))) :pattern ((strings.TrimLeft s c)))))
; a one-byte cutset: exactly the leading run of that byte is removed
(assert (forall ((s Str) (c Str)) (! (=> (= (Str.len c) 1) (and (or (= (strings.TrimLeft.idx s c) (Str.len s)) (not (= (Str.nth s (strings.TrimLeft.idx s c)) (Str.nth c 0))))
    (forall ((i Int)) (! (=> (and (<= 0 i) (< i (strings.TrimLeft.idx s c))) (= (Str.nth s i) (Str.nth c 0))) :pattern ((Str.nth s i)))))) :pattern ((strings.TrimLeft s c)))))
(declare-fun strings.ContainsAny (Str Str) Bool)
(declare-fun strconv.ParseUint.val (Str Int) Int)
(declare-fun strconv.ParseUint.ok (Str Int) Bool)
(declare-fun strconv.FormatUint (Int Int) Str)
(declare-fun strconv.ParseInt.val (Str Int) Int)
(declare-fun strconv.ParseInt.ok (Str Int) Bool)
(assert (forall ((n Int) (b Int)) (! (> (Str.len (strconv.FormatUint n b)) 0) :pattern ((strconv.FormatUint n b)))))
(assert (forall ((n Int) (i Int)) (! (=> (and (<= 0 i) (< i (Str.len (strconv.FormatUint n 10)))) (and (<= 48 (Str.nth (strconv.FormatUint n 10) i)) (<= (Str.nth (strconv.FormatUint n 10) i) 57))) :pattern ((Str.nth (strconv.FormatUint n 10) i)))))
(declare-fun Str.ofRune (Int) Str)
(define-fun gdiv ((a Int) (b Int)) Int (ite (= (>= a 0) (> b 0)) (div (abs a) (abs b)) (- (div (abs a) (abs b)))))
(define-fun grem ((a Int) (b Int)) Int (- a (* b (gdiv a b))))
(declare-fun SpanOf (Node) Span)
`

const bufioPrelude = `; ---- assumed vocabulary of bufio.Scanner and of writers other than strings.Builder
(declare-fun bufio.lines (Any) Seq_Str)
(declare-fun bufio.err (Any) Err)
(declare-fun writerId (Any) Int)
`
