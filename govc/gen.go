package main

import (
	"fmt"
	"go/constant"
	"go/types"
	"strings"
)

// Generated spec modules: specifications that are derived mechanically from
// go/types of package parser on every run, so that a new node type or a new
// field can never be silently left out.
//
//	spanof:   SpanOf(n)   = hull of every span-bearing part of n, in field order
//	          spanSafe(n) = calling n.Span() cannot dereference nil
//	walk:     children of a node in traversal order (Appendix C)  [see genWalk]

func (U *Universe) isSpanType(t types.Type) bool {
	n, ok := t.(*types.Named)
	return ok && n.Obj().Name() == "Span" && n.Obj().Pkg() != nil && n.Obj().Pkg().Name() == "parser"
}

func (E *Engine) genSpanOf() string {
	U := E.U
	var b strings.Builder
	b.WriteString(`(define-fun spanValid ((s Span)) Bool (and (>= (Span.Start s) 0) (>= (Span.End s) 0) (<= (Span.Start s) (Span.End s))))
(define-fun nullSpanV () Span (mk_Span (- 1) (- 1)))
(define-fun imin ((a Int) (b Int)) Int (ite (<= a b) a b))
(define-fun imax ((a Int) (b Int)) Int (ite (>= a b) a b))
; hull2(u, s): extend the hull u by the span s (invalid spans are ignored)
(define-fun-rec hull2 ((u Span) (s Span)) Span
  (ite (not (spanValid s)) u
    (ite (spanValid u) (mk_Span (imin (Span.Start u) (Span.Start s)) (imax (Span.End u) (Span.End s))) s)))
(define-fun-rec hullSeq ((l Seq_Span) (n Int)) Span
  (ite (<= n 0) nullSpanV (hull2 (hullSeq l (- n 1)) (Seq_Span.nth l (- n 1)))))
; two spans denote the same extent: equal, or both invalid
(define-fun spanEq ((a Span) (b Span)) Bool (or (= a b) (and (not (spanValid a)) (not (spanValid b)))))
(lemma hullSeq-snoc :induction n (forall ((l Seq_Span) (x Span) (n Int)) (! (=> (<= n (Seq_Span.len l)) (= (hullSeq (Seq_Span.snoc l x) n) (hullSeq l n))) :pattern ((hullSeq (Seq_Span.snoc l x) n)))))
(lemma hullSeq-valid-or-null :induction n (forall ((l Seq_Span) (n Int)) (! (or (spanValid (hullSeq l n)) (= (hullSeq l n) nullSpanV)) :pattern ((hullSeq l n)))))
`)
	// SpanOf / SpanOfList
	b.WriteString("(declare-fun SpanOfList (Seq_Node Int) Span)\n")
	b.WriteString("(assert (forall ((l Seq_Node) (n Int)) (! (= (SpanOfList l n) (ite (<= n 0) nullSpanV (hull2 (SpanOfList l (- n 1)) (SpanOf (Seq_Node.nth l (- n 1)))))) :pattern ((SpanOfList l n)))))\n")
	var perCtor strings.Builder
	for _, si := range U.nodeTys {
		// binders f0..fk and the constructor term
		var binders, args []string
		for i, f := range si.Fields {
			binders = append(binders, fmt.Sprintf("(f%d %s)", i, f.Sort))
			args = append(args, fmt.Sprintf("f%d", i))
		}
		ctor := "mk_" + si.Name
		if len(args) > 0 {
			ctor = "(mk_" + si.Name + " " + strings.Join(args, " ") + ")"
		}
		h := "nullSpanV"
		var conds []string
		nparts, single := 0, ""
		for i, f := range si.Fields {
			sel := fmt.Sprintf("f%d", i)
			switch {
			case U.isSpanType(f.Type):
				h = fmt.Sprintf("(hull2 %s %s)", h, sel)
				nparts++
				single = sel
			case f.Sort == "Node":
				h = fmt.Sprintf("(hull2 %s (SpanOf %s))", h, sel)
				conds = append(conds, fmt.Sprintf("(spanSafe %s)", sel))
				nparts++
				single = fmt.Sprintf("(SpanOf %s)", sel)
			case f.Sort == "Seq_Node":
				h = fmt.Sprintf("(hull2 %s (SpanOfList %s (Seq_Node.len %s)))", h, sel, sel)
				conds = append(conds, fmt.Sprintf("(spanSafeList %s (Seq_Node.len %s))", sel, sel))
				nparts++
				single = fmt.Sprintf("(SpanOfList %s (Seq_Node.len %s))", sel, sel)
			}
		}
		// a node with exactly one span-bearing part (Ident, BasicLit, TableRef, QualifiedIdent):
		// its span IS the span of that part ("a name's span is the identifier, a literal's span the literal")
		if nparts == 1 {
			h = single
		}
		c := "true"
		if len(conds) > 0 {
			c = "(and " + strings.Join(conds, " ") + ")"
		}
		q := func(body, pat string) string {
			if len(binders) == 0 {
				return fmt.Sprintf("(assert %s)\n", body)
			}
			return fmt.Sprintf("(assert (forall (%s) (! %s :pattern (%s))))\n", strings.Join(binders, " "), body, pat)
		}
		perCtor.WriteString(q(fmt.Sprintf("(= (SpanOf %s) %s)", ctor, h), fmt.Sprintf("(SpanOf %s)", ctor)))
		perCtor.WriteString(q(fmt.Sprintf("(= (spanSafe %s) (and (spanSafeLocal %s) %s))", ctor, ctor, c), fmt.Sprintf("(spanSafe %s)", ctor)))
	}
	b.WriteString("(assert (= (SpanOf nilN) nullSpanV))\n(assert (forall ((t Int)) (! (= (SpanOf (nilp t)) nullSpanV) :pattern ((SpanOf (nilp t))))))\n")
	for _, si := range U.nodeTys {
		fmt.Fprintf(&b, "(define-fun tag.%s () Int %d)\n", si.Name, si.Tag)
	}
	// tagOf: the dynamic type of a non-nil node
	b.WriteString("(declare-fun tagOf (Node) Int)\n(assert (= (tagOf nilN) 0))\n(assert (forall ((t Int)) (! (= (tagOf (nilp t)) 0) :pattern ((tagOf (nilp t))))))\n")
	for _, si := range U.nodeTys {
		fmt.Fprintf(&b, "(assert (forall ((n Node)) (! (= ((_ is mk_%s) n) (= (tagOf n) %d)) :pattern ((tagOf n)))))\n", si.Name, si.Tag)
	}
	// Local safety conditions, read off the code and *checked* by the safety
	// obligations of the Span methods (which assume only spanSafe(self)):
	// JoinOperator.Span and AsOperator.Span dereference their receiver, and
	// TabularExpr.Span calls a method on the Source interface.
	b.WriteString(`(define-fun spanSafeLocal ((n Node)) Bool
  (and (not (= n (nilp tag.JoinOperator))) (not (= n (nilp tag.AsOperator)))
       (=> ((_ is mk_TabularExpr) n) (not (= (TabularExpr.Source n) nilN)))))
`)
	b.WriteString("(declare-fun spanSafe (Node) Bool)\n(declare-fun spanSafeList (Seq_Node Int) Bool)\n")
	b.WriteString("(assert (= (spanSafe nilN) true))\n(assert (forall ((t Int)) (! (= (spanSafe (nilp t)) (spanSafeLocal (nilp t))) :pattern ((spanSafe (nilp t))))))\n")
	b.WriteString(perCtor.String())
	b.WriteString("(assert (forall ((l Seq_Node) (n Int)) (! (= (spanSafeList l n) (ite (<= n 0) true (and (spanSafeList l (- n 1)) (spanSafe (Seq_Node.nth l (- n 1)))))) :pattern ((spanSafeList l n)))))\n")
	b.WriteString(`; spans inside a source of length L: a valid span ends at or before L
(define-fun inL ((L Int) (s Span)) Bool (or (not (spanValid s)) (<= (Span.End s) L)))
(lemma hull2-valid-r (forall ((u Span) (s Span)) (! (=> (spanValid s) (spanValid (hull2 u s))) :pattern ((hull2 u s)))))
(lemma hull2-valid-l (forall ((u Span) (s Span)) (! (=> (spanValid u) (spanValid (hull2 u s))) :pattern ((hull2 u s)))))
(lemma hull2-in (forall ((L Int) (u Span) (s Span)) (! (=> (and (inL L u) (inL L s)) (inL L (hull2 u s))) :pattern ((inL L (hull2 u s))))))
(define-fun-rec spansInL ((L Int) (l Seq_Node) (n Int)) Bool
  (ite (<= n 0) true (and (spansInL L l (- n 1)) (inL L (SpanOf (Seq_Node.nth l (- n 1)))))))
(lemma SpanOfList-in :induction n (forall ((L Int) (l Seq_Node) (n Int)) (! (=> (spansInL L l n) (inL L (SpanOfList l n))) :pattern ((spansInL L l n) (SpanOfList l n)))))
(lemma SpanOfList-valid :induction n (forall ((l Seq_Node) (n Int) (i Int)) (! (=> (and (<= 0 i) (< i n) (spanValid (SpanOf (Seq_Node.nth l i)))) (spanValid (SpanOfList l n))) :pattern ((SpanOfList l n) (SpanOf (Seq_Node.nth l i))))))
(lemma SpanOfList-snoc :induction n (forall ((l Seq_Node) (x Node) (n Int)) (! (=> (<= n (Seq_Node.len l)) (= (SpanOfList (Seq_Node.snoc l x) n) (SpanOfList l n))) :pattern ((SpanOfList (Seq_Node.snoc l x) n)))))
(lemma spansInL-snoc :induction n (forall ((L Int) (l Seq_Node) (x Node) (n Int)) (! (=> (<= n (Seq_Node.len l)) (= (spansInL L (Seq_Node.snoc l x) n) (spansInL L l n))) :pattern ((spansInL L (Seq_Node.snoc l x) n)))))
(lemma spanSafeList-snoc :induction n (forall ((l Seq_Node) (x Node) (n Int)) (! (=> (<= n (Seq_Node.len l)) (= (spanSafeList (Seq_Node.snoc l x) n) (spanSafeList l n))) :pattern ((spanSafeList (Seq_Node.snoc l x) n)))))
`)
	b.WriteString("(lemma spanSafeList-nth :induction n (forall ((l Seq_Node) (n Int) (i Int)) (! (=> (and (spanSafeList l n) (<= 0 i) (< i n)) (spanSafe (Seq_Node.nth l i))) :pattern ((spanSafeList l n) (Seq_Node.nth l i)))))\n")
	return b.String()
}

// genHeight: a well-founded measure on trees. height is uninterpreted; the
// axioms only say that children are strictly smaller (true of every finite
// tree, so the axioms are consistent), lheight bounds the elements of a list.
func (E *Engine) genHeight() string {
	U := E.U
	var b strings.Builder
	b.WriteString("(declare-fun height (Node) Int)\n(declare-fun lheight (Seq_Node) Int)\n")
	b.WriteString("(assert (forall ((n Node)) (! (>= (height n) 0) :pattern ((height n)))))\n")
	b.WriteString("(assert (forall ((l Seq_Node)) (! (>= (lheight l) 0) :pattern ((lheight l)))))\n")
	b.WriteString("(assert (forall ((l Seq_Node) (i Int)) (! (=> (and (<= 0 i) (< i (Seq_Node.len l))) (<= (height (Seq_Node.nth l i)) (lheight l))) :pattern ((height (Seq_Node.nth l i))))))\n")
	b.WriteString("(assert (forall ((l Seq_Node) (a Int) (c Int)) (! (=> (and (<= 0 a) (<= a c) (<= c (Seq_Node.len l))) (<= (lheight (Seq_Node.slice l a c)) (lheight l))) :pattern ((lheight (Seq_Node.slice l a c))))))\n")
	for _, si := range U.nodeTys {
		var binders, args, cs []string
		for i, f := range si.Fields {
			binders = append(binders, fmt.Sprintf("(f%d %s)", i, f.Sort))
			args = append(args, fmt.Sprintf("f%d", i))
		}
		if len(args) == 0 {
			continue
		}
		ctor := "(mk_" + si.Name + " " + strings.Join(args, " ") + ")"
		for i, f := range si.Fields {
			switch f.Sort {
			case "Node":
				cs = append(cs, fmt.Sprintf("(< (height f%d) (height %s))", i, ctor))
			case "Seq_Node":
				cs = append(cs, fmt.Sprintf("(< (lheight f%d) (height %s))", i, ctor))
			}
		}
		if len(cs) > 0 {
			fmt.Fprintf(&b, "(assert (forall (%s) (! (and %s) :pattern ((height %s)))))\n", strings.Join(binders, " "), strings.Join(cs, " "), ctor)
		}
		// the same facts in selector form, triggered by the height of a selected child
		for _, f := range si.Fields {
			sel := fmt.Sprintf("(%s.%s n)", si.Name, f.Name)
			switch f.Sort {
			case "Node":
				fmt.Fprintf(&b, "(assert (forall ((n Node)) (! (=> ((_ is mk_%s) n) (< (height %s) (height n))) :pattern ((height %s)))))\n", si.Name, sel, sel)
			case "Seq_Node":
				fmt.Fprintf(&b, "(assert (forall ((n Node)) (! (=> ((_ is mk_%s) n) (< (lheight %s) (height n))) :pattern ((lheight %s)))))\n", si.Name, sel, sel)
			}
		}
	}
	return b.String()
}

// genSpanContracts: every Span() method of a node type gets the same, mechanically
// derived contract: under spanSafe(receiver) the result is the hull of ALL
// span-bearing parts of the node (SpanOf), so an omitted field is refuted.
func (E *Engine) genSpanContracts() {
	for _, si := range E.U.nodeTys {
		key := fmt.Sprintf("parser.(*%s).Span", si.Name)
		fn := E.P.Funcs[key]
		if fn == nil || E.CS.ByFunc[key] != nil {
			continue
		}
		r := fn.Params[0].Name()
		c := &Contract{Func: key, Uses: []string{"spanof"}, Loops: map[int]*LoopContract{}, File: "generated:Span", Props: []string{"C10", "C12"}}
		c.Requires = []Clause{{Label: "safe", Src: "spanSafe(" + r + ")", File: "generated:Span"}}
		c.Ensures = []Clause{{Label: "hull", Src: "result == SpanOf(" + r + ")", File: "generated:Span"}}
		c.Decreases = &Clause{Src: "height(" + r + "), 0", File: "generated:Span"}
		c.Uses = append(c.Uses, "height")
		E.CS.ByFunc[key] = c
		E.CS.Order = append(E.CS.Order, key)
	}
}

// genConsts: every package-level integer constant of the module as an SMT constant.
func (E *Engine) genConsts() string {
	var b strings.Builder
	seen := map[string]bool{}
	for _, pn := range []string{"parser", "pql"} {
		sp := E.P.SSA[pn]
		if sp == nil {
			continue
		}
		sc := sp.Pkg.Scope()
		for _, n := range sc.Names() {
			c, ok := sc.Lookup(n).(*types.Const)
			if !ok || seen[n] {
				continue
			}
			if c.Val().Kind() != constant.Int {
				continue
			}
			seen[n] = true
			v := c.Val().ExactString()
			if strings.HasPrefix(v, "-") {
				v = "(- " + v[1:] + ")"
			}
			fmt.Fprintf(&b, "(define-fun %s () Int %s)\n", n, v)
		}
	}
	return b.String()
}

func (E *Engine) registerGenerated() {
	add := func(name, text string, uses ...string) {
		forms, err := parseSX(text)
		if err != nil {
			panic(fmt.Sprintf("generated module %s: %v", name, err))
		}
		_ = forms
		m, err := E.Spec.parseModule(name, text)
		if err != nil {
			panic(fmt.Sprintf("generated module %s: %v", name, err))
		}
		m.Uses = append(m.Uses, uses...)
		E.Spec.Mods[name] = m
	}
	E.Spec.Funs["SpanOf"] = SpecFun{Name: "SpanOf", Args: []string{"Node"}, Ret: "Span"}
	E.Spec.Funs["SpanOfList"] = SpecFun{Name: "SpanOfList", Args: []string{"Seq_Node", "Int"}, Ret: "Span"}
	E.Spec.Funs["spanSafe"] = SpecFun{Name: "spanSafe", Args: []string{"Node"}, Ret: "Bool"}
	E.Spec.Funs["spanSafeList"] = SpecFun{Name: "spanSafeList", Args: []string{"Seq_Node", "Int"}, Ret: "Bool"}
	E.Spec.Funs["spanSafeLocal"] = SpecFun{Name: "spanSafeLocal", Args: []string{"Node"}, Ret: "Bool"}
	E.Spec.Funs["inL"] = SpecFun{Name: "inL", Args: []string{"Int", "Span"}, Ret: "Bool"}
	E.Spec.Funs["spansInL"] = SpecFun{Name: "spansInL", Args: []string{"Int", "Seq_Node", "Int"}, Ret: "Bool"}
	E.Spec.Funs["height"] = SpecFun{Name: "height", Args: []string{"Node"}, Ret: "Int"}
	E.Spec.Funs["lheight"] = SpecFun{Name: "lheight", Args: []string{"Seq_Node"}, Ret: "Int"}
	add("consts", E.genConsts())
	add("height", E.genHeight())
	add("spanof", E.genSpanOf())
	for _, f := range []SpecFun{
		{Name: "vis", Args: []string{"Seq_Node", "Node"}, Ret: "Bool"},
		{Name: "Pre", Args: []string{"Node", "Seq_Node"}, Ret: "Seq_Node"},
		{Name: "PreOpt", Args: []string{"Node", "Seq_Node"}, Ret: "Seq_Node"},
		{Name: "PKr", Args: []string{"Seq_Node", "Int", "Seq_Node"}, Ret: "Seq_Node"},
		{Name: "PKprops", Args: []string{"Seq_Node", "Int", "Seq_Node"}, Ret: "Seq_Node"},
		{Name: "PreS", Args: []string{"Seq_Node", "Seq_Node"}, Ret: "Seq_Node"},
		{Name: "walkWF", Args: []string{"Node"}, Ret: "Bool"},
		{Name: "walkWFL", Args: []string{"Seq_Node", "Int"}, Ret: "Bool"},
		{Name: "walkWFprops", Args: []string{"Seq_Node", "Int"}, Ret: "Bool"},
		{Name: "walkWFopt", Args: []string{"Node"}, Ret: "Bool"},
		{Name: "isNilNode", Args: []string{"Node"}, Ret: "Bool"},
		{Name: "size", Args: []string{"Node"}, Ret: "Int"},
		{Name: "lsizeFrom", Args: []string{"Seq_Node", "Int"}, Ret: "Int"},
		{Name: "psizeFrom", Args: []string{"Seq_Node", "Int"}, Ret: "Int"},
		{Name: "stackSize", Args: []string{"Seq_Node"}, Ret: "Int"},
		{Name: "pcountFrom", Args: []string{"Seq_Node", "Int"}, Ret: "Int"},
	} {
		E.Spec.Funs[f.Name] = f
	}
	add("walk", E.genWalk())
	E.genSpanContracts()
}
