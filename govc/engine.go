package main

import (
	"go/constant"
	"go/token"
	"bytes"
	"crypto/sha1"
	"context"
	"fmt"
	"go/types"
	"os"
	"os/exec"
	"path/filepath"
	"sort"
	"strings"
	"sync"
	"time"

	"golang.org/x/tools/go/ssa"
)

type Engine struct {
	P    *Program
	U    *Universe
	CS   *ContractSet
	Spec *SpecSet

	knownOnce      sync.Once
	known          map[string]bool
	needUTF8       bool
	needSpanOf     bool
	needCat        map[string]bool
	globalMapsRead map[string]bool

	allocCache map[*ssa.Function]map[string]bool
	callees    map[*ssa.Function][]*ssa.Function
	reachCache map[*ssa.Function]map[*ssa.Function]bool

	kf []kfEntry

	Tier     string
	TimeoutQ int // ms per check, first pass
	TimeoutR int // ms per check, retries
	WorkDir  string
	KeepVC   bool
	Seed     int

	mu sync.Mutex
}

type mapEntry struct{ K, V *ssa.Const }

type kfEntry struct {
	Key    string
	Fn     *ssa.Function
	Parens bool
}

// kfTable reads the map literal built by the closure initKnownFunctions hands to sync.Once.Do.
func (E *Engine) kfTable() []kfEntry {
	if E.kf != nil {
		return E.kf
	}
	fn := E.P.Funcs["pql.initKnownFunctions$1"]
	if fn == nil {
		return nil
	}
	var out []kfEntry
	for _, b := range fn.Blocks {
		for _, in := range b.Instrs {
			u, ok := in.(*ssa.MapUpdate)
			if !ok {
				continue
			}
			kc, ok := u.Key.(*ssa.Const)
			if !ok {
				return nil
			}
			al, ok := u.Value.(*ssa.Alloc)
			if !ok {
				return nil
			}
			e := kfEntry{Key: constant.StringVal(kc.Value)}
			for _, ref := range *al.Referrers() {
				fa, ok := ref.(*ssa.FieldAddr)
				if !ok {
					continue
				}
				for _, r2 := range *fa.Referrers() {
					st, ok := r2.(*ssa.Store)
					if !ok {
						continue
					}
					switch v := st.Val.(type) {
					case *ssa.Function:
						e.Fn = v
					case *ssa.Const:
						if v.Value != nil && v.Value.Kind() == constant.Bool {
							e.Parens = constant.BoolVal(v.Value)
						}
					default:
						return nil
					}
				}
			}
			if e.Fn == nil {
				return nil
			}
			out = append(out, e)
		}
	}
	sort.Slice(out, func(i, j int) bool { return out[i].Key < out[j].Key })
	E.kf = out
	return out
}

func (E *Engine) globalMapEntries(g *ssa.Global) []mapEntry {
	init := g.Pkg.Func("init")
	if init == nil {
		return nil
	}
	var mk ssa.Value
	for _, b := range init.Blocks {
		for _, in := range b.Instrs {
			if s, ok := in.(*ssa.Store); ok && s.Addr == g {
				mk = s.Val
			}
		}
	}
	if mk == nil {
		return nil
	}
	if _, ok := mk.(*ssa.MakeMap); !ok {
		return nil
	}
	var out []mapEntry
	for _, b := range init.Blocks {
		for _, in := range b.Instrs {
			if u, ok := in.(*ssa.MapUpdate); ok && u.Map == mk {
				k, ok1 := u.Key.(*ssa.Const)
				v, ok2 := u.Value.(*ssa.Const)
				if !ok1 {
					return nil
				}
				if !ok2 {
					// struct{}{} values etc.
					out = append(out, mapEntry{K: k})
					continue
				}
				out = append(out, mapEntry{K: k, V: v})
			}
		}
	}
	if out == nil {
		out = []mapEntry{}
	}
	return out
}

func (E *Engine) callbackModel(x *Exec, name string) func(x *Exec, st *State, fv Val, args []Val, call *ssa.Call) []Val {
	if x.ct == nil || x.ct.Ghost == "" || x.ct.Ghost != name {
		return nil
	}
	return func(x *Exec, st *State, fv Val, args []Val, call *ssa.Call) []Val {
		a := x.term(st, args[0], true)
		tv := st.frames[0].vars["trace"]
		o := st.objs[tv.A.ObjID]
		seq := o.Vals[0].S
		if seq == "Seq_Node" {
			st.check(x.key+"/pre/"+name, fmt.Sprintf("(not (isNilNode %s))", a), "the visitor is never called with a nil node, at "+x.pos(call.Pos()))
		}
		cur := o.Vals[0].T
		nt := st.fresh("trace", seq)
		st.assume(fmt.Sprintf("(= %s (%s.snoc %s %s))", nt, seq, cur, a))
		o.Vals[0] = Val{S: seq, T: nt}
		if call.Common().Signature().Results().Len() == 0 {
			return nil
		}
		return []Val{{S: "Bool", T: fmt.Sprintf("(vis %s %s)", cur, a)}}
	}
}

// ---- static call graph -------------------------------------------------------------

func (E *Engine) calleesOf(fn *ssa.Function) []*ssa.Function {
	if cs, ok := E.callees[fn]; ok {
		return cs
	}
	seen := map[*ssa.Function]bool{}
	var out []*ssa.Function
	add := func(f *ssa.Function) {
		if f != nil && !seen[f] && strings.HasPrefix(calleePkgPath(f), modPath) {
			seen[f] = true
			out = append(out, f)
		}
	}
	for _, b := range fn.Blocks {
		for _, in := range b.Instrs {
			switch in := in.(type) {
			case ssa.CallInstruction:
				c := in.Common()
				if c.IsInvoke() {
					// Node.Span dispatches to every Span method
					if c.Method.Name() == "Span" {
						for _, si := range E.U.nodeTys {
							add(E.P.Funcs[fmt.Sprintf("parser.(*%s).Span", si.Name)])
						}
					}
					continue
				}
				if sc := c.StaticCallee(); sc != nil {
					add(sc)
					continue
				}
				if _, ok := c.Value.(*ssa.Builtin); ok {
					continue
				}
				// dynamic: every module function with an identical signature whose address is taken
				sig := c.Signature()
				for _, f := range E.P.Funcs {
					if f.Signature.Recv() == nil && types.Identical(f.Signature, sig) {
						add(f)
					}
				}
			case *ssa.MakeClosure:
				add(in.Fn.(*ssa.Function))
			}
		}
	}
	sort.Slice(out, func(i, j int) bool { return funcKey(out[i]) < funcKey(out[j]) })
	E.callees[fn] = out
	return out
}

func (E *Engine) reach(fn *ssa.Function) map[*ssa.Function]bool {
	if r, ok := E.reachCache[fn]; ok {
		return r
	}
	r := map[*ssa.Function]bool{}
	var work []*ssa.Function
	for _, c := range E.calleesOf(fn) {
		if !r[c] {
			r[c] = true
			work = append(work, c)
		}
	}
	for len(work) > 0 {
		f := work[len(work)-1]
		work = work[:len(work)-1]
		for _, c := range E.calleesOf(f) {
			if !r[c] {
				r[c] = true
				work = append(work, c)
			}
		}
	}
	E.reachCache[fn] = r
	return r
}

// reachesSpan: fn is reachable from some Span method (so it is in the recursive cycle).
func (E *Engine) reachesSpan(fn *ssa.Function) bool {
	for _, si := range E.U.nodeTys {
		if m := E.P.Funcs[fmt.Sprintf("parser.(*%s).Span", si.Name)]; m != nil {
			if m == fn || E.reach(m)[fn] {
				return true
			}
		}
	}
	return false
}

func (E *Engine) isRecursive(fn *ssa.Function) bool { return E.reach(fn)[fn] }

func (E *Engine) sameSCC(a, b *ssa.Function) bool {
	if a == b {
		return E.isRecursive(a)
	}
	return E.reach(a)[b] && E.reach(b)[a]
}

// allocTypes: names of heap-regime struct types a function (transitively) may allocate.
func (E *Engine) allocTypes(fn *ssa.Function) map[string]bool {
	if r, ok := E.allocCache[fn]; ok {
		return r
	}
	r := map[string]bool{}
	E.allocCache[fn] = r
	fs := []*ssa.Function{fn}
	for f := range E.reach(fn) {
		fs = append(fs, f)
	}
	for _, f := range fs {
		for _, b := range f.Blocks {
			for _, in := range b.Instrs {
				switch in := in.(type) {
				case *ssa.Alloc:
					if in.Heap {
						if nt, ok := in.Type().(*types.Pointer).Elem().(*types.Named); ok {
							if _, ok := nt.Underlying().(*types.Struct); ok {
								si := E.U.structInfo(nt)
								if si.Sum == "" {
									r[si.Name] = true
								}
							}
						}
					}
				case *ssa.MakeMap:
					r["map:"] = true
				}
			}
		}
	}
	return r
}

// ---- verification of functions -------------------------------------------------------

type SubResult struct {
	Check  Check
	Path   int
	Status string // unsat sat unknown timeout error
	Solver string
	Detail string
}

type ObResult struct {
	Name    string
	Func    string
	Guard   bool
	Subs    int
	Proved  bool
	Vacuous bool
	BySolver map[string]int
	Fails   []SubResult
	Seconds float64
}

type FuncResult struct {
	Key       string
	Err       error
	Paths     int
	Checks    int
	Obs       map[string]*ObResult
	Inlined   []string
	Trusted   []string
	Models    []string
	Seconds   float64
	Scripts   []string // per path full script (kept for replay files)
	PathInfo  []*PathResult
}

func (E *Engine) header(uses []string) string {
	var b strings.Builder
	b.WriteString("(set-option :print-success false)\n(set-option :produce-models true)\n(set-logic ALL)\n")
	E.U.extraSorts["Any"] = true
	E.U.seqs["Seq_Str"] = "Str"
	b.WriteString(E.U.prelude())
	b.WriteString(libPrelude)
	b.WriteString(bufioPrelude)
	var pn []string
	pureStringsMu.Lock()
	defer pureStringsMu.Unlock()
	for n := range pureStringsFuncs {
		pn = append(pn, n)
	}
	sort.Strings(pn)
	for _, n := range pn {
		b.WriteString(pureStringsFuncs[n])
	}
	return b.String()
}

func (E *Engine) specText(uses []string, hide []string) string {
	var b strings.Builder
	hidden := map[string]bool{}
	for _, h := range hide {
		hidden[h] = true
	}
	for _, m := range E.Spec.closure(uses) {
		if hidden[m.Name] {
			fmt.Fprintf(&b, "; ---- module %s (interface only)\n%s", m.Name, m.Iface)
		} else {
			fmt.Fprintf(&b, "; ---- module %s\n%s", m.Name, m.Text)
		}
	}
	return b.String()
}

func (E *Engine) verifyFunc(key string) *FuncResult {
	t0 := time.Now()
	fr := &FuncResult{Key: key, Obs: map[string]*ObResult{}}
	fn := E.P.Funcs[key]
	if fn == nil {
		fr.Err = fmt.Errorf("function %s not found in the repository", key)
		return fr
	}
	ct := E.CS.get(key)
	E.mu.Lock()
	locked := true
	defer func() {
		if locked {
			E.mu.Unlock()
		}
	}()
	x := &Exec{E: E, fn: fn, key: key, ct: ct, maxPaths: 6000, usedTrusted: map[string]bool{}, usedModels: map[string]bool{}, inlined: map[string]bool{}, okEval: map[string]int{}}
	if err := x.verify(); err != nil {
		fr.Err = err
		return fr
	}
	var uses []string
	if ct != nil {
		uses = ct.Uses
	}
	// contracts of callees may use further modules
	for k := range x.usedTrusted {
		_ = k
	}
	uses = append(uses, E.usesOfCallees(fn)...)
	head := E.header(uses)
	var hide []string
	if ct != nil {
		hide = ct.Hide
	}
	spec := E.specText(uses, hide)
	litTexts := []string{spec}
	for _, p := range x.paths {
		litTexts = append(litTexts, p.Script)
	}
	lits := E.U.litDeclsFor(litTexts...)
	fr.Paths = len(x.paths)
	fr.PathInfo = x.paths
	for k := range x.inlined {
		fr.Inlined = append(fr.Inlined, k)
	}
	for k := range x.usedTrusted {
		fr.Trusted = append(fr.Trusted, k)
	}
	for k := range x.usedModels {
		fr.Models = append(fr.Models, k)
	}
	sort.Strings(fr.Inlined)
	sort.Strings(fr.Trusted)
	sort.Strings(fr.Models)
	fulls := make([]string, len(x.paths))
	// identical (prefix, check) pairs occur in many paths: solve each once
	type owner struct{ path, id int }
	seenChk := map[[20]byte]owner{}
	dupOf := make([]map[int]owner, len(x.paths))
	for i, p := range x.paths {
		dupOf[i] = map[int]owner{}
		lines := strings.Split(p.Script, "\n")
		var out []string
		h := sha1.New()
		for j := 0; j < len(lines); j++ {
			l := lines[j]
			if strings.HasPrefix(l, "(echo \"CHK ") {
				var id int
				fmt.Sscanf(l, "(echo \"CHK %d\")", &id)
				e := j + 1
				for e < len(lines) && !strings.HasPrefix(lines[e], "(pop 1)") && !strings.HasPrefix(lines[e], "(echo \"unsat\")") {
					e++
				}
				blk := lines[j+1 : e+1]
				hh := sha1.New()
				var cur [20]byte
				copy(cur[:], h.Sum(nil))
				hh.Write(cur[:])
				for _, b := range blk {
					hh.Write([]byte(b))
				}
				var key [20]byte
				copy(key[:], hh.Sum(nil))
				if o, ok := seenChk[key]; ok {
					dupOf[i][id] = o
				} else {
					seenChk[key] = owner{i, id}
					out = append(out, lines[j:e+1]...)
				}
				j = e
				continue
			}
			h.Write([]byte(l))
			h.Write([]byte{10})
			out = append(out, l)
		}
		fulls[i] = head + lits + spec + "; ---- path\n" + strings.Join(out, "\n")
	}
	fr.Scripts = fulls
	locked = false
	E.mu.Unlock()
	// run solver on all paths in parallel
	type job struct {
		pi     int
		script string
	}
	results := make([][]SubResult, len(x.paths))
	var wg sync.WaitGroup
	sem := make(chan struct{}, 16)
	for i, p := range x.paths {
		full := fulls[i]
		wg.Add(1)
		sem <- struct{}{}
		go func(i int, p *PathResult, full string) {
			defer wg.Done()
			defer func() { <-sem }()
			results[i] = E.solvePath(key, i, p, full)
		}(i, p, full)
	}
	wg.Wait()
	for i := range results {
		for j := range results[i] {
			if o, ok := dupOf[i][results[i][j].Check.ID]; ok {
				src := results[o.path][o.id]
				results[i][j].Status = src.Status
				results[i][j].Solver = src.Solver
				results[i][j].Detail = "same as path " + fmt.Sprint(o.path) + ": " + src.Detail
			}
		}
	}
	for i, rs := range results {
		for _, r := range rs {
			fr.Checks++
			ob := fr.Obs[r.Check.Ob]
			if ob == nil {
				ob = &ObResult{Name: r.Check.Ob, Func: key, Guard: r.Check.Guard, Proved: true, BySolver: map[string]int{}}
				if r.Check.Guard {
					ob.Vacuous = true
				}
				fr.Obs[r.Check.Ob] = ob
			}
			ob.Subs++
			r.Path = i
			if r.Check.Guard {
				if r.Status != "unsat" {
					ob.Vacuous = false
				}
				continue
			}
			if r.Status == "unsat" {
				ob.BySolver[r.Solver]++
			} else {
				ob.Proved = false
				ob.Fails = append(ob.Fails, r)
			}
		}
	}
	for _, ob := range fr.Obs {
		if ob.Guard {
			ob.Proved = !ob.Vacuous
		}
	}
	if ct != nil && ct.FunctionOf != "" {
		name := key + "/determinism"
		ob := &ObResult{Name: name, Func: key, Subs: 1, Proved: true, BySolver: map[string]int{"syntactic": 1}}
		if why := E.nondeterminism(fn); why != "" {
			ob.Proved = false
			ob.Fails = []SubResult{{Check: Check{Ob: name, Note: "the function must be deterministic for `function " + ct.FunctionOf + "`"}, Status: "refuted", Detail: why}}
		}
		fr.Obs[name] = ob
		fr.Checks++
	}
	if ct != nil && len(ct.TableKeys) > 0 {
		// a package-level lookup table must hold exactly the documented keys (read from the package initialiser)
		name := key + "/tablekeys"
		ob := &ObResult{Name: name, Func: key, Subs: 1, Proved: true, BySolver: map[string]int{"syntactic": 1}}
		var tns []string
		for tn := range ct.TableKeys {
			tns = append(tns, tn)
		}
		sort.Strings(tns)
		for _, tn := range tns {
			why := ""
			g, _ := fn.Pkg.Members[tn].(*ssa.Global)
			if g == nil {
				why = "no package-level variable " + tn
			} else if ents := E.globalMapEntries(g); ents == nil {
				why = tn + " is not a map initialised with constant keys in the package initialiser"
			} else if E.globalWriter(g, E.onceFuncs()) != "" {
				why = tn + " is written outside the package initialiser"
			} else {
				have := map[string]bool{}
				for _, e := range ents {
					if e.K.Value != nil && e.K.Value.Kind() == constant.String {
						have[constant.StringVal(e.K.Value)] = true
					}
				}
				var missing, extra []string
				want := map[string]bool{}
				for _, k := range ct.TableKeys[tn] {
					want[k] = true
					if !have[k] {
						missing = append(missing, k)
					}
				}
				for k := range have {
					if !want[k] {
						extra = append(extra, k)
					}
				}
				sort.Strings(extra)
				if len(missing) > 0 || len(extra) > 0 {
					why = fmt.Sprintf("%s: documented keys missing %v, undocumented keys %v", tn, missing, extra)
				}
			}
			if why != "" {
				ob.Proved = false
				ob.Fails = append(ob.Fails, SubResult{Check: Check{Ob: name, Note: "lookup table differs from the documented one"}, Status: "refuted", Detail: why})
			}
		}
		fr.Obs[name] = ob
		fr.Checks++
	}
	if ct != nil && (len(ct.Keywords) > 0 || len(ct.Synonyms) > 0) {
		// the spellings a production recognises: read off the string comparisons of the real SSA and compared
		// with the list the contract takes from the property statement (a syntactic obligation)
		name := key + "/keywords"
		ob := &ObResult{Name: name, Func: key, Subs: 1, Proved: true, BySolver: map[string]int{"syntactic": 1}}
		if why := keywordMismatch(fn, ct); why != "" {
			ob.Proved = false
			ob.Fails = []SubResult{{Check: Check{Ob: name, Note: "the spellings compared in the code are not the documented ones"}, Status: "refuted", Detail: why}}
		}
		fr.Obs[name] = ob
		fr.Checks++
	}
	fr.Seconds = time.Since(t0).Seconds()
	return fr
}

// keywordMismatch: the set of string constants that fn compares with == (switch cases included) must be exactly
// ct.Keywords, and for every pair of ct.Synonyms the two comparisons must branch to the same block.
func keywordMismatch(fn *ssa.Function, ct *Contract) string {
	target := map[string]*ssa.BasicBlock{}
	var order []string
	for _, b := range fn.Blocks {
		for _, in := range b.Instrs {
			bo, ok := in.(*ssa.BinOp)
			if !ok || (bo.Op != token.EQL && bo.Op != token.NEQ) {
				continue
			}
			var c *ssa.Const
			if k, ok := bo.X.(*ssa.Const); ok {
				c = k
			} else if k, ok := bo.Y.(*ssa.Const); ok {
				c = k
			}
			if c == nil || c.Value == nil || c.Value.Kind() != constant.String {
				continue
			}
			w := constant.StringVal(c.Value)
			if _, seen := target[w]; !seen {
				order = append(order, w)
			}
			// where does a successful comparison go? (the If that tests this value, if it is the block's last instruction)
			var tb *ssa.BasicBlock
			if ifi, ok := b.Instrs[len(b.Instrs)-1].(*ssa.If); ok && ifi.Cond == ssa.Value(bo) {
				tb = b.Succs[0]
				if bo.Op == token.NEQ {
					tb = b.Succs[1]
				}
			}
			target[w] = tb
		}
	}
	if len(ct.Keywords) > 0 {
		want := map[string]bool{}
		for _, k := range ct.Keywords {
			want[k] = true
		}
		var missing, extra []string
		for _, k := range ct.Keywords {
			if _, ok := target[k]; !ok {
				missing = append(missing, k)
			}
		}
		for _, k := range order {
			if !want[k] {
				extra = append(extra, k)
			}
		}
		if len(missing) > 0 || len(extra) > 0 {
			return fmt.Sprintf("documented spellings not compared in the code: %v; spellings compared but not documented: %v", missing, extra)
		}
	}
	for _, p := range ct.Synonyms {
		ta, oka := target[p[0]]
		tb, okb := target[p[1]]
		if !oka || !okb || ta == nil || ta != tb {
			return fmt.Sprintf("%q and %q do not select the same code", p[0], p[1])
		}
	}
	return ""
}

// nondeterminism: a syntactic reason why the result of fn might not be a function of its
// arguments and the heap it is given ("" if none):
//   - iteration over a map, unless the loop body only copies the entries into another map;
//   - goroutines, select, channel operations;
//   - reads of package-level variables that some function other than a package initialiser or an
//     initialise-once function (one that is only ever handed to (*sync.Once).Do, has no parameters and
//     captures nothing) writes; writes to package-level variables outside such functions;
//   - calls into packages outside the module that are not on the list of deterministic library
//     packages; maps.Keys/Values unless the result is sorted before any other use.
func (E *Engine) nondeterminism(fn *ssa.Function) string {
	fs := []*ssa.Function{fn}
	for f := range E.reach(fn) {
		fs = append(fs, f)
	}
	sort.Slice(fs, func(i, j int) bool { return funcKey(fs[i]) < funcKey(fs[j]) })
	once := E.onceFuncs()
	for _, f := range fs {
		for _, b := range f.Blocks {
			for _, in := range b.Instrs {
				switch in := in.(type) {
				case *ssa.Range:
					if _, ok := in.X.Type().Underlying().(*types.Map); ok && !isMapCopyLoop(in) {
						return fmt.Sprintf("%s ranges over a map at %s (iteration order is unspecified and the loop does more than copy entries into another map)", funcKey(f), E.P.Fset.Position(in.Pos()))
					}
				case *ssa.Go, *ssa.Select, *ssa.Send:
					return fmt.Sprintf("%s uses concurrency at %s", funcKey(f), E.P.Fset.Position(in.Pos()))
				case *ssa.UnOp:
					if in.Op != token.MUL {
						continue
					}
					if g := rootGlobal(in.X); g != nil && g.Pkg != nil && strings.HasPrefix(g.Pkg.Pkg.Path(), modPath) {
						if w := E.globalWriter(g, once); w != "" {
							return fmt.Sprintf("%s reads package variable %s at %s, which %s writes", funcKey(f), g.Name(), E.P.Fset.Position(in.Pos()), w)
						}
					}
				case *ssa.Store:
					if g := rootGlobal(in.Addr); g != nil && !once[f] && !(f.Name() == "init" && f.Signature.Recv() == nil) {
						return fmt.Sprintf("%s writes package variable %s at %s", funcKey(f), g.Name(), E.P.Fset.Position(in.Pos()))
					}
				case *ssa.MapUpdate:
					if u, ok := in.Map.(*ssa.UnOp); ok {
						if g := rootGlobal(u.X); g != nil && !once[f] && !(f.Name() == "init" && f.Signature.Recv() == nil) {
							return fmt.Sprintf("%s updates package-level map %s at %s", funcKey(f), g.Name(), E.P.Fset.Position(in.Pos()))
						}
					}
				case ssa.CallInstruction:
					c := in.Common()
					sc := c.StaticCallee()
					if sc == nil || strings.HasPrefix(calleePkgPath(sc), modPath) {
						continue
					}
					key := funcKey(sc)
					if i := strings.Index(key, "["); i > 0 {
						key = key[:i]
					}
					switch key {
					case "golang.org/x/exp/maps.Keys", "golang.org/x/exp/maps.Values", "maps.Keys", "maps.Values":
						v, _ := in.(ssa.Value)
						if v == nil || !sortedBeforeUse(v) {
							return fmt.Sprintf("%s uses the keys of a map in iteration order at %s (not sorted before use)", funcKey(f), E.P.Fset.Position(in.Pos()))
						}
						continue
					case "sync.(*Once).Do":
						continue
					}
					if !deterministicLibrary(calleePkgPath(sc)) {
						return fmt.Sprintf("%s calls %s at %s, which is not on the list of deterministic library functions", funcKey(f), funcKey(sc), E.P.Fset.Position(in.Pos()))
					}
				}
			}
		}
	}
	return ""
}

// knownFailing: obligations recorded as unrepaired genuine defects in known_findings.json.
func (E *Engine) knownFailing() map[string]bool {
	E.knownOnce.Do(func() {
		E.known = map[string]bool{}
		var ks []KnownFinding
		if readJSON(filepath.Join(verifDir, "known_findings.json"), &ks) == nil {
			for _, k := range ks {
				if k.Status == "known" {
					E.known[k.Obligation] = true
				}
			}
		}
	})
	return E.known
}

func deterministicLibrary(pkg string) bool {
	switch pkg {
	case "strconv", "strings", "unicode", "unicode/utf8", "errors", "fmt", "slices", "sort", "bytes", "math", "maps", "golang.org/x/exp/maps", "cmp":
		return true
	}
	return false
}

// rootGlobal: the package-level variable an address is derived from (through field and index selections), or nil.
func rootGlobal(v ssa.Value) *ssa.Global {
	for {
		switch a := v.(type) {
		case *ssa.Global:
			return a
		case *ssa.FieldAddr:
			v = a.X
		case *ssa.IndexAddr:
			v = a.X
		default:
			return nil
		}
	}
}

// onceFuncs: functions whose only use is as the argument of (*sync.Once).Do and which take no input
// (no parameters, no captured variables): they run at most once, before any reader that calls Do first.
func (E *Engine) onceFuncs() map[*ssa.Function]bool {
	cand := map[*ssa.Function]bool{}
	other := map[*ssa.Function]bool{}
	for _, f := range E.P.Funcs {
		for _, b := range f.Blocks {
			for _, in := range b.Instrs {
				if _, dbg := in.(*ssa.DebugRef); dbg {
					continue
				}
				var isDo bool
				var ci ssa.CallInstruction
				if c, ok := in.(ssa.CallInstruction); ok {
					ci = c
					if sc := c.Common().StaticCallee(); sc != nil && funcKey(sc) == "sync.(*Once).Do" {
						isDo = true
					}
				}
				for _, op := range in.Operands(nil) {
					if op == nil || *op == nil {
						continue
					}
					var fn *ssa.Function
					switch v := (*op).(type) {
					case *ssa.Function:
						fn = v
					case *ssa.MakeClosure:
						fn, _ = v.Fn.(*ssa.Function)
						if len(v.Bindings) > 0 {
							other[fn] = true
						}
					}
					if fn == nil {
						continue
					}
					if isDo && ci != nil && len(ci.Common().Args) == 2 && ci.Common().Args[1] == *op {
						cand[fn] = true
					} else if _, isMC := in.(*ssa.MakeClosure); !isMC && !(ci != nil && ci.Common().Value == *op) {
						other[fn] = true
					} else if ci != nil && ci.Common().Value == *op {
						other[fn] = true // called directly
					}
				}
			}
		}
	}
	out := map[*ssa.Function]bool{}
	for f := range cand {
		if !other[f] && len(f.Params) == 0 && len(f.FreeVars) == 0 {
			out[f] = true
		}
	}
	return out
}

// globalWriter: a function, other than package initialisers and initialise-once functions, that stores to
// (a part of) g or updates the map it holds; "" if there is none.
func (E *Engine) globalWriter(g *ssa.Global, once map[*ssa.Function]bool) string {
	for _, f := range E.P.Funcs {
		if (f.Name() == "init" && f.Signature.Recv() == nil) || once[f] {
			continue
		}
		for _, b := range f.Blocks {
			for _, in := range b.Instrs {
				switch in := in.(type) {
				case *ssa.Store:
					if rootGlobal(in.Addr) == g {
						return funcKey(f)
					}
				case *ssa.MapUpdate:
					if u, ok := in.Map.(*ssa.UnOp); ok && rootGlobal(u.X) == g {
						return funcKey(f)
					}
				}
			}
		}
	}
	return ""
}

// isMapCopyLoop: the body of `for k, v := range m` does nothing but store the entries into another map
// (m2[k] = v): its effect does not depend on the iteration order.
func isMapCopyLoop(r *ssa.Range) bool {
	var next *ssa.Next
	for _, ref := range *r.Referrers() {
		if n, ok := ref.(*ssa.Next); ok {
			if next != nil {
				return false
			}
			next = n
		}
	}
	if next == nil {
		return false
	}
	head := next.Block()
	var ifi *ssa.If
	if len(head.Instrs) > 0 {
		ifi, _ = head.Instrs[len(head.Instrs)-1].(*ssa.If)
	}
	if ifi == nil || len(head.Succs) != 2 {
		return false
	}
	// the body: blocks reachable from the continue-branch without passing through the head
	seen := map[*ssa.BasicBlock]bool{head: true}
	work := []*ssa.BasicBlock{head.Succs[0]}
	for len(work) > 0 {
		b := work[len(work)-1]
		work = work[:len(work)-1]
		if seen[b] {
			continue
		}
		seen[b] = true
		for _, in := range b.Instrs {
			switch in := in.(type) {
			case *ssa.Extract, *ssa.MapUpdate, *ssa.Jump, *ssa.If, *ssa.Phi, *ssa.DebugRef:
			case *ssa.UnOp:
				if in.Op != token.MUL {
					return false
				}
			default:
				return false
			}
		}
		work = append(work, b.Succs...)
	}
	for _, in := range head.Instrs {
		switch in.(type) {
		case *ssa.Next, *ssa.Extract, *ssa.If, *ssa.Phi, *ssa.DebugRef:
		default:
			return false
		}
	}
	return true
}

// sortedBeforeUse: every use of the value (other than debug references) is a call that sorts it in place,
// or comes after such a call in the same block.
func sortedBeforeUse(v ssa.Value) bool {
	refs := v.Referrers()
	if refs == nil {
		return false
	}
	var sortCall ssa.Instruction
	for _, r := range *refs {
		if c, ok := r.(ssa.CallInstruction); ok {
			if sc := c.Common().StaticCallee(); sc != nil {
				k := funcKey(sc)
				if i := strings.Index(k, "["); i > 0 {
					k = k[:i]
				}
				if k == "slices.Sort" || k == "sort.Strings" || k == "golang.org/x/exp/slices.Sort" {
					sortCall = r
					break
				}
			}
		}
	}
	if sortCall == nil {
		return false
	}
	// the sort must be the first non-debug use in program order within its block, and all other uses in
	// the same block after it or in blocks it dominates
	sb := sortCall.Block()
	idx := map[ssa.Instruction]int{}
	for i, in := range sb.Instrs {
		idx[in] = i
	}
	for _, r := range *refs {
		if _, ok := r.(*ssa.DebugRef); ok || r == sortCall {
			continue
		}
		if r.Block() == sb {
			if idx[r] < idx[sortCall] {
				return false
			}
			continue
		}
		if !sb.Dominates(r.Block()) {
			return false
		}
	}
	return true
}

// globalWritten: some function of the module other than the package initialiser stores to g or updates the map it holds.
func (E *Engine) globalWritten(g *ssa.Global) bool {
	for _, f := range E.P.Funcs {
		if f.Name() == "init" && f.Signature.Recv() == nil {
			continue
		}
		for _, b := range f.Blocks {
			for _, in := range b.Instrs {
				switch in := in.(type) {
				case *ssa.Store:
					if in.Addr == g {
						return true
					}
				case *ssa.MapUpdate:
					if u, ok := in.Map.(*ssa.UnOp); ok && u.X == g {
						return true
					}
				}
			}
		}
	}
	return false
}

func (E *Engine) usesOfCallees(fn *ssa.Function) []string {
	var out []string
	seen := map[string]bool{}
	for f := range E.reach(fn) {
		if ct := E.CS.get(funcKey(f)); ct != nil {
			for _, u := range ct.Uses {
				if !seen[u] {
					seen[u] = true
					out = append(out, u)
				}
			}
		}
	}
	sort.Strings(out)
	return out
}

// ---- solver portfolio -------------------------------------------------------------------

type solverSpec struct {
	name string
	args func(ms int) []string
}

var solvers = []solverSpec{
	// E-matching only (no model-based quantifier instantiation): the VCs are in the Boogie/Dafny style,
	// every needed instance is reachable through the stated triggers; MBQI only burns time on them
	{"z3-4.8.12", func(ms int) []string {
		return []string{"z3", "-smt2", fmt.Sprintf("-t:%d", ms), "smt.mbqi=false", "auto_config=false", "smt.case_split=3"}
	}},
	// the retries include both z3 versions with the default case-split heuristic as well: smt.case_split=3 makes
	// most checks fast but sends a few into long case analyses that the default heuristic avoids (and vice versa)
	{"z3-5.1.0", func(ms int) []string {
		return []string{"z3-new", "-smt2", fmt.Sprintf("-t:%d", ms), "smt.mbqi=false", "auto_config=false", "smt.case_split=3"}
	}},
	{"cvc5-1.0", func(ms int) []string {
		return []string{"cvc5", "--lang=smt2", "--incremental", fmt.Sprintf("--tlimit-per=%d", ms)}
	}},
	{"z3-4.8.12/default-split", func(ms int) []string {
		return []string{"z3", "-smt2", fmt.Sprintf("-t:%d", ms), "smt.mbqi=false"}
	}},
	{"z3-5.1.0/default-split", func(ms int) []string {
		return []string{"z3-new", "-smt2", fmt.Sprintf("-t:%d", ms), "smt.mbqi=false"}
	}},
}

// at most this many solver processes at any time (the machine has 16 cores; oversubscription
// turns fast proofs into timeouts)
var solverSem = make(chan struct{}, 14)

func runSolver(s solverSpec, ms int, script string, nchecks int, dir, tag string) ([]string, string) {
	solverSem <- struct{}{}
	defer func() { <-solverSem }()
	f := filepath.Join(dir, tag+".smt2")
	if strings.HasPrefix(s.name, "cvc5") {
		var keep []string
		for _, l := range strings.Split(script, "\n") {
			if !strings.HasPrefix(l, "(set-option :timeout") {
				keep = append(keep, l)
			}
		}
		script = strings.Join(keep, "\n")
	} else {
		script = strings.ReplaceAll(script, "@TMO@", fmt.Sprint(ms))
	}
	if err := os.WriteFile(f, []byte(script), 0o644); err != nil {
		return nil, err.Error()
	}
	a := s.args(ms)
	ctx, cancel := context.WithTimeout(context.Background(), time.Duration(ms*(nchecks+1)+5000)*time.Millisecond)
	defer cancel()
	cmd := exec.CommandContext(ctx, a[0], append(a[1:], f)...)
	var out bytes.Buffer
	cmd.Stdout = &out
	cmd.Stderr = &out
	_ = cmd.Run()
	os.Remove(f)
	// parse: "CHK n" then status line
	res := make([]string, nchecks)
	lines := strings.Split(out.String(), "\n")
	// an error outside a check block (bad prelude, unknown symbol) invalidates the whole run
	seenChk := false
	for _, l := range lines {
		l = strings.TrimSpace(l)
		if strings.HasPrefix(strings.Trim(l, "\""), "CHK ") {
			seenChk = true
		}
		if strings.HasPrefix(l, "(error") && !strings.Contains(l, "model is not available") {
			if !seenChk || true {
				for i := range res {
					res[i] = "error: " + l
				}
				return res, out.String()
			}
		}
	}
	cur := -1
	for _, l := range lines {
		l = strings.TrimSpace(strings.Trim(l, "\""))
		if strings.HasPrefix(l, "CHK ") {
			fmt.Sscanf(l, "CHK %d", &cur)
			continue
		}
		if cur >= 0 && cur < nchecks && res[cur] == "" {
			switch l {
			case "unsat", "sat", "unknown", "timeout":
				res[cur] = l
			default:
				if strings.HasPrefix(l, "(error") {
					res[cur] = "error: " + l
				}
			}
		}
	}
	return res, out.String()
}

// obligations that already have a definitively failed instance: further instances are not retried on
// the slower solvers (the obligation is reported as failed either way)
var failedObs sync.Map

func (E *Engine) solvePath(key string, pi int, p *PathResult, full string) []SubResult {
	n := len(p.Checks)
	out := make([]SubResult, n)
	for i, c := range p.Checks {
		out[i] = SubResult{Check: c, Status: "none"}
	}
	tag := fmt.Sprintf("%s.p%d", sanitize(key), pi)
	res, raw := runSolver(solvers[0], E.TimeoutQ, full, n, E.WorkDir, tag)
	for i := range out {
		st := "unknown"
		if res != nil && res[i] != "" {
			st = res[i]
		}
		out[i].Status = st
		out[i].Solver = solvers[0].name
		if strings.HasPrefix(st, "error") {
			out[i].Detail = raw
		}
	}
	if E.Tier == "thorough" {
		// second opinion: the whole path script is also given to z3 5.1.0; an obligation both accept is counted
		// under "z3-4.8.12+z3-5.1.0", an obligation the first accepts and the second refutes is a failure
		res2, _ := runSolver(solvers[1], E.TimeoutQ, full, n, E.WorkDir, tag+".second")
		for i := range out {
			if p.Checks[i].Guard || out[i].Status != "unsat" || res2 == nil {
				continue
			}
			switch res2[i] {
			case "unsat":
				out[i].Solver = solvers[0].name + "+" + solvers[1].name
			case "sat":
				out[i].Status = "sat"
				out[i].Solver = solvers[1].name
				out[i].Detail = "solver disagreement: " + solvers[0].name + " says unsat, " + solvers[1].name + " says sat"
				failedObs.Store(p.Checks[i].Ob, true)
			}
		}
	}
	// retry failures one by one with the other solvers (and the first with a longer limit)
	for i := range out {
		c := p.Checks[i]
		if c.Guard {
			continue
		}
		if !strings.Contains(full, fmt.Sprintf("(echo \"CHK %d\")", c.ID)) {
			out[i].Status = "dup"
			continue
		}
		if out[i].Status == "unsat" {
			continue
		}
		if _, done := failedObs.Load(c.Ob); done {
			out[i].Detail = "not retried: another instance of this obligation has already failed on every solver"
			continue
		}
		single := head1(full, i)
		var notes []string
		notes = append(notes, fmt.Sprintf("%s: %s", out[i].Solver, out[i].Status))
		retry := []solverSpec{solvers[1], solvers[4], solvers[2], solvers[3]}
		tmo := E.TimeoutR
		if os.Getenv("GOVC_DRY") == "canary" {
			// self-test run on a change that is expected to fail: one short second opinion per failing check
			retry = []solverSpec{solvers[1]}
			tmo = 8000
		}
		if E.knownFailing()[c.Ob] {
			// an obligation recorded as a known finding is expected to fail: one short second opinion is enough
			retry = []solverSpec{solvers[1]}
			tmo = E.TimeoutQ
		}
		// two rounds: every retry configuration with a short limit first (a proof that one configuration finds in
		// a fraction of a second must not wait behind another one's full timeout), then with the full limit
		type attempt struct {
			s   solverSpec
			tmo int
		}
		var plan []attempt
		short := 8000
		if short < tmo {
			for _, s := range retry {
				plan = append(plan, attempt{s, short})
			}
		}
		for _, s := range retry {
			plan = append(plan, attempt{s, tmo})
		}
		for ai, at := range plan {
			s := at.s
			r, raw := runSolver(s, at.tmo, single, n, E.WorkDir, fmt.Sprintf("%s.c%d.%s.%d", tag, i, sanitize(s.name), ai))
			st := "unknown"
			if r != nil && r[i] != "" {
				st = r[i]
			}
			notes = append(notes, fmt.Sprintf("%s: %s", s.name, st))
			if st == "unsat" {
				out[i].Status = "unsat"
				out[i].Solver = s.name
				if os.Getenv("GOVC_SHOWRETRY") != "" {
					fmt.Fprintf(os.Stderr, "RETRY-OK %s path %d check %d (%s) by %s after %v\n", key, pi, c.ID, c.Ob, s.name, notes)
				}
				break
			}
			if st == "sat" {
				out[i].Status = "sat"
				out[i].Solver = s.name
			}
			if strings.HasPrefix(st, "error") {
				notes = append(notes, firstLines(raw, 6))
			}
		}
		out[i].Detail = strings.Join(notes, "; ")
		if out[i].Status != "unsat" {
			failedObs.Store(c.Ob, true)
		}
	}
	return out
}

func firstLines(s string, n int) string {
	ls := strings.Split(s, "\n")
	if len(ls) > n {
		ls = ls[:n]
	}
	return strings.Join(ls, " | ")
}

// head1 isolates check k: earlier checks become plain assumptions, later text is dropped.
func head1(full string, k int) string {
	lines := strings.Split(full, "\n")
	var out []string
	i := 0
	for i < len(lines) {
		l := lines[i]
		if strings.HasPrefix(l, "(echo \"CHK ") {
			var id int
			fmt.Sscanf(l, "(echo \"CHK %d\")", &id)
			// block: echo, push, [assert not], check-sat, pop   OR echo, echo "unsat"
			j := i + 1
			for j < len(lines) && !strings.HasPrefix(lines[j], "(pop 1)") && !strings.HasPrefix(lines[j], "(echo \"unsat\")") {
				j++
			}
			if id == k {
				out = append(out, lines[i:j+1]...)
				if len(out) > 0 && strings.HasPrefix(lines[j], "(pop 1)") {
					// ask for a model inside the push scope: rebuild
					blk := lines[i : j+1]
					out = out[:len(out)-len(blk)]
					for _, b := range blk {
						if strings.HasPrefix(b, "(pop 1)") {
							continue
						}
						out = append(out, b)
					}
				}
				return strings.Join(out, "\n") + "\n"
			}
			i = j + 1
			continue
		}
		out = append(out, l)
		i++
	}
	return strings.Join(out, "\n") + "\n"
}

// expandKeys replaces a generic function by its instances.
func (E *Engine) expandKeys(keys []string) []string {
	var out []string
	for _, k := range keys {
		fn := E.P.Funcs[k]
		if fn != nil && fn.TypeParams().Len() > 0 && len(fn.TypeArgs()) == 0 {
			var inst []string
			for n := range E.P.Funcs {
				if strings.HasPrefix(n, k+"[") {
					inst = append(inst, n)
				}
			}
			sort.Strings(inst)
			out = append(out, inst...)
			continue
		}
		out = append(out, k)
	}
	return out
}
