package main

import (
	"fmt"
	"go/ast"
	"go/token"
	"go/types"
	"sort"
	"strings"

	"golang.org/x/tools/go/ssa"
)

// ---- loop discovery ------------------------------------------------------------

func (x *Exec) findLoops() {
	fn := x.fn
	x.loops = map[*ssa.BasicBlock]*LoopInfo{}
	for _, b := range fn.Blocks {
		for _, s := range b.Succs {
			if s.Dominates(b) {
				li := x.loops[s]
				if li == nil {
					li = &LoopInfo{Header: s, Blocks: map[*ssa.BasicBlock]bool{s: true}}
					x.loops[s] = li
				}
				// natural loop of back edge b -> s
				var work []*ssa.BasicBlock
				if !li.Blocks[b] {
					li.Blocks[b] = true
					work = append(work, b)
				}
				for len(work) > 0 {
					n := work[len(work)-1]
					work = work[:len(work)-1]
					for _, p := range n.Preds {
						if !li.Blocks[p] {
							li.Blocks[p] = true
							work = append(work, p)
						}
					}
				}
			}
		}
	}
	if len(x.loops) == 0 {
		return
	}
	// source loops in order
	var srcLoops []ast.Node
	var body *ast.BlockStmt
	switch d := fn.Syntax().(type) {
	case *ast.FuncDecl:
		body = d.Body
	case *ast.FuncLit:
		body = d.Body
	}
	if body == nil {
		limitf("loops in a function without syntax: %s", x.key)
	}
	ast.Inspect(body, func(n ast.Node) bool {
		switch n.(type) {
		case *ast.FuncLit:
			return false
		case *ast.ForStmt, *ast.RangeStmt:
			srcLoops = append(srcLoops, n)
		}
		return true
	})
	if len(x.loops) > len(srcLoops) {
		limitf("%s: %d loops in the control-flow graph but %d in the source", x.key, len(x.loops), len(srcLoops))
	}
	used := map[int]bool{}
	var hs []*ssa.BasicBlock
	for h := range x.loops {
		hs = append(hs, h)
	}
	sort.Slice(hs, func(i, j int) bool { return hs[i].Index < hs[j].Index })
	for _, h := range hs {
		li := x.loops[h]
		pos := x.firstPos(li)
		ord := -1
		// innermost source loop containing pos
		for i, sl := range srcLoops {
			if sl.Pos() <= pos && pos <= sl.End() {
				ord = i + 1 // later (inner) loops override
			}
		}
		if ord < 0 || used[ord] {
			limitf("%s: cannot map loop at block %d to a source loop (pos %s)", x.key, h.Index, x.pos(pos))
		}
		used[ord] = true
		li.Ord = ord
		if x.ct != nil {
			li.LC = x.ct.Loops[ord]
		}
	}
	if x.ct != nil {
		for ord := range x.ct.Loops {
			if !used[ord] {
				limitf("%s: contract names loop %d, which is not a loop of the function", x.key, ord)
			}
		}
	}
}

func (x *Exec) firstPos(li *LoopInfo) token.Pos {
	try := func(b *ssa.BasicBlock) token.Pos {
		for _, in := range b.Instrs {
			if _, ok := in.(*ssa.Phi); ok {
				continue
			}
			if d, ok := in.(*ssa.DebugRef); ok {
				if d.Expr != nil {
					return d.Expr.Pos()
				}
				continue
			}
			if in.Pos().IsValid() {
				return in.Pos()
			}
		}
		return token.NoPos
	}
	if p := try(li.Header); p.IsValid() {
		return p
	}
	var bs []*ssa.BasicBlock
	for b := range li.Blocks {
		bs = append(bs, b)
	}
	sort.Slice(bs, func(i, j int) bool { return bs[i].Index < bs[j].Index })
	for _, b := range bs {
		if p := try(b); p.IsValid() {
			return p
		}
	}
	return token.NoPos
}

// ---- modification sets -----------------------------------------------------------

type HeapMod struct {
	Any   bool
	Bases []string // reference terms whose entry may change
	Sort  string
	Alloc bool     // new objects of this heap's struct type may have been allocated
}

type Mods struct {
	Heaps  map[string]*HeapMod
	Cells  map[int]map[int]bool // local object id -> fields (-1 = whole)
	All    bool
	Allocs bool
	Globs  bool
}

func newMods() *Mods { return &Mods{Heaps: map[string]*HeapMod{}, Cells: map[int]map[int]bool{}} }

func (m *Mods) heapMod(name, sortName string) *HeapMod {
	h := m.Heaps[name]
	if h == nil {
		h = &HeapMod{Sort: sortName}
		m.Heaps[name] = h
	}
	return h
}

func (m *Mods) addBase(name, sortName, base string) {
	h := m.heapMod(name, sortName)
	for _, b := range h.Bases {
		if b == base {
			return
		}
	}
	h.Bases = append(h.Bases, base)
}

// loopMods computes what the blocks of a loop may modify, in terms of the
// state at loop entry.
func (x *Exec) loopMods(st *State, li *LoopInfo) *Mods {
	m := newMods()
	inLoop := func(v ssa.Value) bool {
		if in, ok := v.(ssa.Instruction); ok {
			return li.Blocks[in.Block()]
		}
		return false
	}
	x.modBlocks(st, x.fn, li.Blocks, inLoop, nil, m, 0)
	return m
}

// modBlocks scans instructions. argOf maps callee parameters/free variables to
// values of the caller state (nil at top level).
func (x *Exec) modBlocks(st *State, fn *ssa.Function, blocks map[*ssa.BasicBlock]bool, inLoop func(ssa.Value) bool, argOf map[ssa.Value]Val, m *Mods, depth int) {
	if depth > 6 {
		m.All = true
		return
	}
	U := x.U()
	resolve := func(v ssa.Value) (Val, bool) {
		// value known at loop entry?
		if argOf != nil {
			if a, ok := argOf[v]; ok {
				return a, true
			}
			// an object the inlined callee allocates itself is fresh
			if al, ok := v.(*ssa.Alloc); ok && al.Heap && x.isHeapStruct(al.Type().(*types.Pointer).Elem()) != nil {
				return Val{S: "@fresh"}, true
			}
			return Val{}, false
		}
		if inLoop(v) {
			// an object allocated inside the loop is fresh: writes to it change nothing that existed at loop entry
			if al, ok := v.(*ssa.Alloc); ok && al.Heap && x.isHeapStruct(al.Type().(*types.Pointer).Elem()) != nil {
				return Val{S: "@fresh"}, true
			}
			// so is the result of a call whose contract says `fresh`
			if c, ok := v.(*ssa.Call); ok {
				if sc := c.Common().StaticCallee(); sc != nil {
					if ct := x.E.CS.get(funcKey(sc)); ct != nil && ct.Fresh {
						return Val{S: "@fresh"}, true
					}
				}
			}
			// a load from a cell that the loop does not write is loop-invariant
			if u, ok := v.(*ssa.UnOp); ok && u.Op == token.MUL {
				if al, ok := u.X.(*ssa.Alloc); ok && !inLoop(al) && !x.storedIn(blocks, al) {
					if av, ok := st.top().regs[al]; ok && av.A != nil && av.A.ObjID > 0 {
						if o := st.objs[av.A.ObjID]; o != nil && o.Kind == objCell {
							return o.Vals[0], true
						}
					}
				}
			}
			return Val{}, false
		}
		switch v.(type) {
		case *ssa.Const, *ssa.Global, *ssa.Function:
			return x.valOf(st, v), true
		}
		r, ok := st.top().regs[v]
		if !ok {
			if fv, isFV := v.(*ssa.FreeVar); isFV {
				_ = fv
				return x.valOf(st, v), true
			}
		}
		return r, ok
	}
	var addrTarget func(a ssa.Value)
	addrTarget = func(a ssa.Value) {
		switch a := a.(type) {
		case *ssa.FieldAddr:
			stT := a.X.Type().Underlying().(*types.Pointer).Elem()
			nt, ok := stT.(*types.Named)
			if !ok {
				// field of a global anonymous struct etc.
				m.Globs = true
				return
			}
			si := U.structInfo(nt)
			base, known := resolve(a.X)
			if known && base.S == "@fresh" {
				if si.Sum == "" {
					m.heapMod(heapName(si, a.Field), si.Fields[a.Field].Sort).Alloc = true
				}
				return
			}
			if known && base.A != nil && base.T == "" && base.A.ObjID > 0 {
				fs := m.Cells[base.A.ObjID]
				if fs == nil {
					fs = map[int]bool{}
					m.Cells[base.A.ObjID] = fs
				}
				if len(base.A.Path) == 0 {
					fs[a.Field] = true
				} else {
					fs[base.A.Path[0]] = true
				}
				return
			}
			if !known {
				// base computed inside the loop: if it is a fresh local object, nothing at entry changes
				if al, ok := a.X.(*ssa.Alloc); ok {
					if !al.Heap || x.isHeapStruct(al.Type().(*types.Pointer).Elem()) == nil {
						return
					}
					// heap object allocated inside the loop
					for i, f := range si.Fields {
						m.heapMod(heapName(si, i), f.Sort).Alloc = true
					}
					return
				}
				if fa, ok := a.X.(*ssa.FieldAddr); ok {
					// nested: &x.f.g
					addrTarget(fa)
					return
				}
				if si.Sum != "" {
					// store into a node defined in the loop (local object created in the loop)
					return
				}
				m.heapMod(heapName(si, a.Field), si.Fields[a.Field].Sort).Any = true
				return
			}
			if si.Sum != "" {
				return
			}
			m.addBase(heapName(si, a.Field), si.Fields[a.Field].Sort, base.T)
		case *ssa.Alloc:
			if v, ok := resolve(a); ok && v.A != nil && v.A.ObjID > 0 {
				fs := m.Cells[v.A.ObjID]
				if fs == nil {
					fs = map[int]bool{}
					m.Cells[v.A.ObjID] = fs
				}
				fs[-1] = true
			}
		case *ssa.IndexAddr:
			addrTarget(a.X)
		case *ssa.Global:
			m.Globs = true
		case *ssa.FreeVar, *ssa.Parameter, *ssa.UnOp, *ssa.Phi:
			if v, ok := resolve(a); ok && v.A != nil && v.A.ObjID > 0 {
				fs := m.Cells[v.A.ObjID]
				if fs == nil {
					fs = map[int]bool{}
					m.Cells[v.A.ObjID] = fs
				}
				fs[-1] = true
				return
			}
			m.All = true
		default:
			m.All = true
		}
	}
	var bs []*ssa.BasicBlock
	for b := range blocks {
		bs = append(bs, b)
	}
	sort.Slice(bs, func(i, j int) bool { return bs[i].Index < bs[j].Index })
	for _, b := range bs {
		for _, in := range b.Instrs {
			switch in := in.(type) {
			case *ssa.Store:
				addrTarget(in.Addr)
			case *ssa.Alloc:
				if in.Heap {
					if si := x.isHeapStruct(in.Type().(*types.Pointer).Elem()); si != nil {
						m.Allocs = true
						for i, f := range si.Fields {
							m.heapMod(heapName(si, i), f.Sort).Alloc = true
						}
					}
				}
			case *ssa.MapUpdate:
				mv, known := resolve(in.Map)
				mt := in.Map.Type().Underlying().(*types.Map)
				dn, vn := mapHeapNames(U, mt)
				if known && mv.T != "" {
					m.addBase(dn, "(Array "+U.sortOf(mt.Key())+" Bool)", mv.T)
					m.addBase(vn, "(Array "+U.sortOf(mt.Key())+" "+U.sortOf(mt.Elem())+")", mv.T)
				} else {
					m.heapMod(dn, "(Array "+U.sortOf(mt.Key())+" Bool)").Any = true
					m.heapMod(vn, "(Array "+U.sortOf(mt.Key())+" "+U.sortOf(mt.Elem())+")").Any = true
				}
			case *ssa.MakeMap:
				mt := in.Type().Underlying().(*types.Map)
				dn, vn := mapHeapNames(U, mt)
				m.Allocs = true
				m.heapMod(dn, "(Array "+U.sortOf(mt.Key())+" Bool)").Alloc = true
				m.heapMod(vn, "(Array "+U.sortOf(mt.Key())+" "+U.sortOf(mt.Elem())+")").Alloc = true
			case *ssa.Next:
				// the iterator's ghost state advances
				if v, ok := resolve(in.Iter); ok && v.A != nil && v.A.ObjID > 0 {
					m.Cells[v.A.ObjID] = map[int]bool{-1: true}
				}
			case ssa.CallInstruction:
				x.modCall(st, in, resolve, m, depth)
			}
		}
	}
}

func mapHeapNames(U *Universe, mt *types.Map) (string, string) {
	k, v := U.sortOf(mt.Key()), U.sortOf(mt.Elem())
	return "M." + k + "." + v + ".dom", "M." + k + "." + v + ".val"
}

func (x *Exec) modCall(st *State, in ssa.CallInstruction, resolve func(ssa.Value) (Val, bool), m *Mods, depth int) {
	U := x.U()
	c := in.Common()
	if c.IsInvoke() {
		// interface method calls we model are pure except io.Writer etc.
		name := c.Method.Name()
		switch name {
		case "Span", "Error", "Unwrap", "expression", "statement", "tabularOperator", "tabularDataSource":
			return
		}
		m.All = true
		return
	}
	callee := c.StaticCallee()
	if callee == nil {
		if _, ok := c.Value.(*ssa.Builtin); ok {
			return
		}
		// dynamic call: a closure known in the state?
		if v, ok := resolve(c.Value); ok && v.Fn != nil {
			callee = v.Fn.Fn
			argOf := map[ssa.Value]Val{}
			for i, fv := range callee.FreeVars {
				if i < len(v.Fn.Bindings) {
					argOf[fv] = v.Fn.Bindings[i]
				}
			}
			x.modCallee(st, callee, c.Args, resolve, argOf, m, depth)
			return
		}
		// a call through the ghost-traced callback parameter only extends the ghost trace
		if p, ok := c.Value.(*ssa.Parameter); ok && x.ct != nil && x.ct.Ghost == p.Name() {
			if tv, ok := st.frames[0].vars["trace"]; ok && tv.A != nil {
				m.Cells[tv.A.ObjID] = map[int]bool{-1: true}
			}
			return
		}
		m.All = true
		return
	}
	argOf := map[ssa.Value]Val{}
	if mc, ok := c.Value.(*ssa.MakeClosure); ok {
		for i, fv := range callee.FreeVars {
			if v, ok := resolve(mc.Bindings[i]); ok {
				argOf[fv] = v
			}
		}
	}
	x.modCallee(st, callee, c.Args, resolve, argOf, m, depth)
	_ = U
}

func (x *Exec) modCallee(st *State, callee *ssa.Function, args []ssa.Value, resolve func(ssa.Value) (Val, bool), argOf map[ssa.Value]Val, m *Mods, depth int) {
	U := x.U()
	key := funcKey(callee)
	for i, p := range callee.Params {
		if i < len(args) {
			if v, ok := resolve(args[i]); ok {
				argOf[p] = v
			}
		}
	}
	if lm := findLibModel(key); lm != nil {
		if lm.mods != nil {
			var avs []Val
			var known []bool
			for _, a := range args {
				v, ok := resolve(a)
				avs = append(avs, v)
				known = append(known, ok)
			}
			lm.mods(x, avs, known, m)
		}
		return
	}
	if !strings.HasPrefix(calleePkgPath(callee), modPath) {
		if callee.Blocks == nil || true {
			if pureStringsModel(key, callee.Signature, U) != nil {
				return
			}
			limitf("no model for library function %s", key)
		}
	}
	ct := x.E.CS.get(key)
	if ct != nil && !ct.Inline {
		x.modsFromContract(st, callee, ct, func(name string) (Val, bool) {
			for _, p := range callee.Params {
				if p.Name() == name {
					v, ok := argOf[p]
					return v, ok
				}
			}
			return Val{}, false
		}, m)
		for s := range x.E.allocTypes(callee) {
			si := U.byName[s]
			if si == nil {
				continue
			}
			m.Allocs = true
			for i, f := range si.Fields {
				m.heapMod(heapName(si, i), f.Sort).Alloc = true
			}
		}
		return
	}
	// inlined callee: scan its body
	all := map[*ssa.BasicBlock]bool{}
	for _, b := range callee.Blocks {
		all[b] = true
	}
	x.modBlocks(st, callee, all, func(ssa.Value) bool { return true }, argOf, m, depth+1)
}

func calleePkgPath(fn *ssa.Function) string {
	if fn.Pkg != nil {
		return fn.Pkg.Pkg.Path()
	}
	if fn.Origin() != nil && fn.Origin().Pkg != nil {
		return fn.Origin().Pkg.Pkg.Path()
	}
	if fn.Parent() != nil {
		return calleePkgPath(fn.Parent())
	}
	return ""
}

// modsFromContract translates an `assigns` clause:
//
//	p.f          field f of the object parameter p refers to
//	T.f          field f of every object of struct type T
//	out(p)       content of the builder p
//	mapof(p.f) / mapof(p)   the map p.f / p
//	*            anything
func (x *Exec) modsFromContract(st *State, callee *ssa.Function, ct *Contract, param func(string) (Val, bool), m *Mods) {
	U := x.U()
	for _, a := range ct.Assigns {
		a = strings.TrimSpace(a)
		switch {
		case a == "*":
			m.All = true
		case strings.HasPrefix(a, "out(") && strings.HasSuffix(a, ")"):
			p := a[4 : len(a)-1]
			si := U.byName["strings.Builder"]
			hn := heapName(si, 0)
			if v, ok := param(p); ok && v.S == "@fresh" {
				m.heapMod(hn, "Out").Alloc = true
			} else if ok && v.T != "" {
				m.addBase(hn, "Out", v.T)
			} else {
				m.heapMod(hn, "Out").Any = true
			}
		case strings.HasPrefix(a, "mapof(") && strings.HasSuffix(a, ")"):
			inner := a[6 : len(a)-1]
			x.modMapOf(st, callee, inner, param, m)
		default:
			parts := strings.Split(a, ".")
			if len(parts) != 2 {
				limitf("%s: unsupported assigns target %q", ct.Func, a)
			}
			// parameter?
			var pt types.Type
			for _, p := range callee.Params {
				if p.Name() == parts[0] {
					pt = p.Type()
				}
			}
			if pt != nil {
				ptr, ok := pt.Underlying().(*types.Pointer)
				if !ok {
					limitf("%s: assigns %q: %s is not a pointer", ct.Func, a, parts[0])
				}
				si := U.structInfo(ptr.Elem().(*types.Named))
				fi := fieldIndex(si, parts[1])
				if fi < 0 {
					limitf("%s: assigns %q: no such field", ct.Func, a)
				}
				hn := heapName(si, fi)
				if v, ok := param(parts[0]); ok && v.S == "@fresh" {
					m.heapMod(hn, si.Fields[fi].Sort).Alloc = true
				} else if ok && v.T != "" {
					m.addBase(hn, si.Fields[fi].Sort, v.T)
				} else {
					m.heapMod(hn, si.Fields[fi].Sort).Any = true
				}
				continue
			}
			si := U.byName[parts[0]]
			if si == nil {
				limitf("%s: assigns %q: unknown parameter or type", ct.Func, a)
			}
			fi := fieldIndex(si, parts[1])
			if fi < 0 {
				limitf("%s: assigns %q: no such field", ct.Func, a)
			}
			m.heapMod(heapName(si, fi), si.Fields[fi].Sort).Any = true
		}
	}
}

func (x *Exec) modMapOf(st *State, callee *ssa.Function, inner string, param func(string) (Val, bool), m *Mods) {
	U := x.U()
	parts := strings.Split(inner, ".")
	var pt types.Type
	for _, p := range callee.Params {
		if p.Name() == parts[0] {
			pt = p.Type()
		}
	}
	if pt == nil {
		limitf("mapof(%s): unknown parameter", inner)
	}
	t := pt
	for _, f := range parts[1:] {
		ptr, ok := t.Underlying().(*types.Pointer)
		if !ok {
			limitf("mapof(%s)", inner)
		}
		si := U.structInfo(ptr.Elem().(*types.Named))
		fi := fieldIndex(si, f)
		t = si.Fields[fi].Type
	}
	mt, ok := t.Underlying().(*types.Map)
	if !ok {
		limitf("mapof(%s): not a map", inner)
	}
	dn, vn := mapHeapNames(U, mt)
	m.heapMod(dn, "(Array "+U.sortOf(mt.Key())+" Bool)").Any = true
	m.heapMod(vn, "(Array "+U.sortOf(mt.Key())+" "+U.sortOf(mt.Elem())+")").Any = true
}

func fieldIndex(si *StructInfo, name string) int {
	for i, f := range si.Fields {
		if f.Name == name {
			return i
		}
	}
	return -1
}

// applyMods havocs what a loop or a contracted call may modify.
func (x *Exec) applyMods(st *State, m *Mods) {
	if m.All {
		for _, hn := range st.heapNames() {
			if strings.HasPrefix(hn, "G:") {
				continue
			}
			st.setHeap(hn, st.heapSort[hn], "")
		}
		for _, o := range st.objs {
			x.havocObj(st, o, map[int]bool{-1: true})
		}
	}
	oldAlloc := st.alloc
	if m.Allocs || m.All {
		na := st.fresh("alloc", "Int")
		st.assume(fmt.Sprintf("(>= %s %s)", na, st.alloc))
		st.alloc = na
	}
	var names []string
	for n := range m.Heaps {
		names = append(names, n)
	}
	sort.Strings(names)
	for _, hn := range names {
		hm := m.Heaps[hn]
		old := st.heap(hn, hm.Sort)
		switch {
		case hm.Any:
			st.setHeap(hn, hm.Sort, "")
		case hm.Alloc:
			st.setHeap(hn, hm.Sort, "")
			nw := st.heaps[hn]
			var ex strings.Builder
			for _, b := range hm.Bases {
				fmt.Fprintf(&ex, " (not (= r %s))", b)
			}
			st.emit("(assert (forall ((r Int)) (! (=> (and (< r %s)%s) (= (select %s r) (select %s r))) :pattern ((select %s r)))))", oldAlloc, ex.String(), nw, old, nw)
		default:
			t := old
			for _, b := range hm.Bases {
				v := st.fresh("hv", elemSortOfHeap(hm.Sort))
				t = fmt.Sprintf("(store %s %s %s)", t, b, v)
			}
			st.setHeap(hn, hm.Sort, t)
		}
	}
	var ids []int
	for id := range m.Cells {
		ids = append(ids, id)
	}
	sort.Ints(ids)
	for _, id := range ids {
		if o := st.objs[id]; o != nil {
			x.havocObj(st, o, m.Cells[id])
		}
	}
}

func elemSortOfHeap(s string) string { return s }

func (x *Exec) havocObj(st *State, o *Obj, fields map[int]bool) {
	U := x.U()
	if _, isIter := o.Alloc.(*ssa.Range); isIter {
		// iterator: the position / the set of keys produced so far
		v := o.Vals[1]
		o.Vals[1] = Val{S: v.S, T: st.fresh(fmt.Sprintf("iter%d", o.ID), v.S)}
		return
	}
	for i := range o.Vals {
		if !(fields[-1] || fields[i]) {
			continue
		}
		v := o.Vals[i]
		if v.A != nil && v.T == "" {
			// pointer to another local object stays (the cell still points to it)
			continue
		}
		if v.Fn != nil && v.S == "Fn" {
			continue
		}
		if v.S == "" || v.S == "@addr" {
			continue
		}
		nv := Val{S: v.S, T: st.fresh(fmt.Sprintf("o%d.%d", o.ID, i), v.S), GT: v.GT}
		var ft types.Type
		switch o.Kind {
		case objStruct:
			ft = o.SI.Fields[i].Type
		case objArray:
			ft = o.T.Underlying().(*types.Array).Elem()
		default:
			ft = o.T
		}
		if ft != nil {
			nv.GT = ft
			if tk := U.typeOKEager(nv.T, ft); tk != "" {
				st.assume(tk)
			}
		}
		o.Vals[i] = nv
	}
}

// ---- loop entry / back edge ----------------------------------------------------------

func (x *Exec) loopEnv(st *State) *Env {
	fr := st.top()
	// a local wins over a parameter of the same name; old(x) names the parameter's entry value;
	// locals of pointer-to-struct type are also reachable as <name>_<Struct>
	vars := map[string]Val{}
	for k, v := range fr.params {
		vars[k] = v
	}
	for k, v := range fr.vars {
		vars[k] = v
	}
	return &Env{x: x, st: st, vars: vars, oldH: fr.oldHeaps, pkg: x.pkgOf(x.fn), params: fr.params}
}

func (x *Exec) pkgOf(fn *ssa.Function) *types.Package {
	for fn.Parent() != nil {
		fn = fn.Parent()
	}
	if fn.Pkg != nil {
		return fn.Pkg.Pkg
	}
	if fn.Origin() != nil && fn.Origin().Pkg != nil {
		return fn.Origin().Pkg.Pkg
	}
	return nil
}

func clauseName(c Clause, i int) string {
	if c.Label != "" {
		return c.Label
	}
	return fmt.Sprintf("%d", i+1)
}

// loopEntry: check the invariants on entry, havoc, assume them. Returns false
// if the path ends here.
func (x *Exec) loopEntry(st *State, li *LoopInfo) bool {
	fr := st.top()
	if li.LC == nil {
		limitf("%s: loop %d has no invariant/decreases contract", x.key, li.Ord)
	}
	ev := x.loopEnv(st)
	// phis take their entry values for the entry check
	x.bindPhis(st, li.Header, false)
	ev = x.loopEnv(st)
	// snapshot for atloop(k, e)
	snap := &loopSnapshot{heaps: map[string]string{}, vars: map[string]Val{}, objs: map[int]*Obj{}}
	for k, v := range st.heaps {
		snap.heaps[k] = v
	}
	for k, v := range ev.vars {
		snap.vars[k] = v
	}
	for k, o := range st.objs {
		snap.objs[k] = o.clone()
	}
	if fr.loopSnap == nil {
		fr.loopSnap = map[int]*loopSnapshot{}
	}
	fr.loopSnap[li.Ord] = snap
	for i, inv := range li.LC.Invariants {
		st.check(fmt.Sprintf("%s/inv/loop%d/%s/entry", x.key, li.Ord, clauseName(inv, i)), ev.evalClause(inv), "invariant on entry")
	}
	// havoc
	m := x.loopMods(st, li)
	x.applyMods(st, m)
	x.bindPhis(st, li.Header, true)
	fr.skipPhis = true
	ev = x.loopEnv(st)
	for _, inv := range li.LC.Invariants {
		st.assume(ev.evalClause(inv))
	}
	// vacuity guard: the invariant must be satisfiable together with the path so far
	st.guard(fmt.Sprintf("%s/vacuity/loop%d", x.key, li.Ord), "invariant satisfiable at loop head")
	if li.LC.Decreases != nil {
		fr.variant[li.Ord] = ev.evalTerms(*li.LC.Decreases)
	} else if !x.isMapRangeLoop(li) {
		limitf("%s: loop %d has no decreases clause", x.key, li.Ord)
	}
	return true
}

func (x *Exec) bindPhis(st *State, h *ssa.BasicBlock, havoc bool) {
	fr := st.top()
	U := x.U()
	var phis []*ssa.Phi
	var vals []Val
	for _, in := range h.Instrs {
		p, ok := in.(*ssa.Phi)
		if !ok {
			break
		}
		phis = append(phis, p)
		if havoc {
			s := U.sortOf(p.Type())
			cur := fr.regs[p]
			if cur.A != nil && cur.T == "" {
				// pointer to a local object: loop-carried pointers to local objects are not supported unless constant
				limitf("%s: loop-carried pointer to a local object (%s)", x.key, p.Comment)
			}
			nv := Val{S: s, T: st.fresh(p.Comment+"_"+p.Name(), s), GT: p.Type()}
			if tk := U.typeOKEager(nv.T, p.Type()); tk != "" {
				st.assume(tk)
			}
			vals = append(vals, nv)
		} else {
			pi := -1
			for i, pr := range h.Preds {
				if pr == fr.prev {
					pi = i
				}
			}
			if pi < 0 {
				limitf("phi without predecessor at loop entry")
			}
			vals = append(vals, x.valOf(st, p.Edges[pi]))
		}
	}
	for i, p := range phis {
		fr.regs[p] = vals[i]
		if p.Comment != "" {
			fr.vars[p.Comment] = vals[i]
		}
	}
}

func (x *Exec) loopBackEdge(st *State, li *LoopInfo) {
	fr := st.top()
	x.bindPhis(st, li.Header, false)
	ev := x.loopEnv(st)
	for i, inv := range li.LC.Invariants {
		st.check(fmt.Sprintf("%s/inv/loop%d/%s/preserved", x.key, li.Ord, clauseName(inv, i)), ev.evalClause(inv), "invariant preserved")
	}
	if li.LC.Decreases != nil {
		nw := ev.evalTerms(*li.LC.Decreases)
		old := fr.variant[li.Ord]
		st.check(fmt.Sprintf("%s/term/loop%d", x.key, li.Ord), lexLess(nw, old), "variant decreases and is bounded below")
	}
	x.finish(st, fmt.Sprintf("back-edge loop%d", li.Ord))
}

// lexLess: nw < old lexicographically, every compared component of old bounded below by 0.
func lexLess(nw, old []string) string {
	if len(nw) != len(old) || len(nw) == 0 {
		return "false"
	}
	var build func(i int) string
	build = func(i int) string {
		if i == len(nw)-1 {
			return fmt.Sprintf("(and (>= %s 0) (< %s %s))", old[i], nw[i], old[i])
		}
		return fmt.Sprintf("(or (and (>= %s 0) (< %s %s)) (and (= %s %s) %s))", old[i], nw[i], old[i], nw[i], old[i], build(i+1))
	}
	return build(0)
}

func (x *Exec) storedIn(blocks map[*ssa.BasicBlock]bool, al *ssa.Alloc) bool {
	for b := range blocks {
		for _, in := range b.Instrs {
			if s, ok := in.(*ssa.Store); ok && s.Addr == al {
				return true
			}
		}
	}
	return false
}

// isMapRangeLoop: the loop is a range over a map; it terminates because a map is finite and
// every key is produced once (assumption about the Go runtime, listed in the evidence).
func (x *Exec) isMapRangeLoop(li *LoopInfo) bool {
	for b := range li.Blocks {
		for _, in := range b.Instrs {
			if n, ok := in.(*ssa.Next); ok && !n.IsString {
				return true
			}
		}
	}
	return false
}
