package main

import (
	"os/exec"
	"encoding/json"
	"fmt"
	"os"
	"path/filepath"
	"sort"
	"strconv"
	"strings"
	"sync"
	"time"
)

// Property checks.  /verif/properties.map.json lists, per property, the
// functions under contract and the lemma modules whose obligations constitute
// it; /verif/baseline_obligations.json lists the obligation names that must be
// generated (vacuity guard 1: a run that generates fewer obligations fails).

type PropSpec struct {
	Functions []string `json:"functions"` // function keys; a trailing * is a prefix match on contract keys
	Lemmas    []string `json:"lemmas"`    // "module" or "module/lemma"
	Bounded   []string `json:"bounded"`   // obligation name prefixes that are bounded stand-ins
	Undecided []string `json:"undecided_clauses"`
	Assume    []string `json:"assumptions"`
	Syntactic []string `json:"syntactic"` // named syntactic frame checks (C14)
	Exclude   []string `json:"exclude"`   // obligations whose name contains one of these are not part of this property
	NotYet    []string `json:"functions_not_yet_under_contract"`
}

type KnownFinding struct {
	Status     string `json:"status"` // known | fixed
	Property   string `json:"property"`
	Obligation string `json:"obligation"`
	What       string `json:"what"`
	Commit     string `json:"commit,omitempty"`
	Note       string `json:"note,omitempty"`
}

const verifDir = "/verif"

func readJSON(path string, v any) error {
	b, err := os.ReadFile(path)
	if err != nil {
		return err
	}
	return json.Unmarshal(b, v)
}

type obRecord struct {
	Name    string             `json:"obligation"`
	Status  string             `json:"status"`
	Subs    int                `json:"sub_checks"`
	Solvers map[string]int     `json:"solved_by,omitempty"`
	Fails   []map[string]any   `json:"failures,omitempty"`
}

func (E *Engine) matchFuncs(pats []string) []string {
	seen := map[string]bool{}
	var out []string
	add := func(k string) {
		if !seen[k] {
			seen[k] = true
			out = append(out, k)
		}
	}
	for _, p := range pats {
		if i := strings.LastIndex(p, "*"); i >= 0 && !strings.Contains(p, "(*") || strings.Count(p, "*") > 1 && i >= 0 {
			pre, suf := p[:i], p[i+1:]
			var ks []string
			for k := range E.CS.ByFunc {
				if strings.HasPrefix(k, pre) && strings.HasSuffix(k, suf) && len(k) >= len(pre)+len(suf) {
					ks = append(ks, k)
				}
			}
			sort.Strings(ks)
			for _, k := range ks {
				add(k)
			}
			continue
		}
		add(p)
	}
	return E.expandKeys(out)
}

func (E *Engine) checkProperty(prop, tier string) int {
	t0 := time.Now()
	seed, _ := strconv.Atoi(os.Getenv("VERIF_SEED"))
	var pm map[string]*PropSpec
	if err := readJSON(filepath.Join(verifDir, "properties.map.json"), &pm); err != nil {
		fmt.Fprintln(os.Stderr, "govc:", err)
		return 2
	}
	ps := pm[prop]
	if ps == nil {
		fmt.Fprintf(os.Stderr, "govc: property %s is not mapped\n", prop)
		return 2
	}
	var baseline map[string][]string
	_ = readJSON(filepath.Join(verifDir, "baseline_obligations.json"), &baseline)
	var known []KnownFinding
	_ = readJSON(filepath.Join(verifDir, "known_findings.json"), &known)
	if tier == "thorough" {
		E.TimeoutQ = 20000
		E.TimeoutR = 60000
	}

	keys := E.matchFuncs(ps.Functions)
	all := map[string]*ObResult{}
	scripts := map[string]string{} // obligation -> one failing script
	var toolLimits []string
	var funcsDone, trusted, models, inlined []string
	var mu sync.Mutex
	var wg sync.WaitGroup
	sem := make(chan struct{}, 6)
	nPaths, nChecks := 0, 0
	solverTime := map[string]float64{}
	for _, k := range keys {
		ct := E.CS.get(k)
		if ct != nil && ct.Trusted {
			trusted = append(trusted, k+" ("+ct.TrustWhy+")")
			continue
		}
		if ct != nil && ct.InlineOnly() {
			inlined = append(inlined, k)
			continue
		}
		wg.Add(1)
		sem <- struct{}{}
		go func(k string) {
			defer wg.Done()
			defer func() { <-sem }()
			fr := E.verifyFuncLocked(k)
			mu.Lock()
			defer mu.Unlock()
			if fr.Err != nil {
				toolLimits = append(toolLimits, fmt.Sprintf("%s: %v", k, fr.Err))
				return
			}
			funcsDone = append(funcsDone, k)
			nPaths += fr.Paths
			nChecks += fr.Checks
			for _, t := range fr.Trusted {
				trusted = append(trusted, t+" (assumed contract, used by "+k+")")
			}
			models = append(models, fr.Models...)
			inlined = append(inlined, fr.Inlined...)
			for n, ob := range fr.Obs {
				skip := false
				for _, e := range ps.Exclude {
					if strings.Contains(n, e) {
						skip = true
					}
				}
				if skip {
					continue
				}
				all[n] = ob
				if !ob.Proved && len(ob.Fails) > 0 {
					scripts[n] = fr.Scripts[ob.Fails[0].Path]
				}
			}
		}(k)
	}
	wg.Wait()
	// lemmas
	for _, ln := range ps.Lemmas {
		mod, lem := ln, ""
		if i := strings.Index(ln, "/"); i > 0 {
			mod, lem = ln[:i], ln[i+1:]
		}
		m := E.Spec.Mods[mod]
		if m == nil {
			toolLimits = append(toolLimits, "unknown lemma module "+mod)
			continue
		}
		for _, l := range m.Lemmas {
			if lem != "" && l.Name != lem {
				continue
			}
			lr := E.proveLemma(m, l)
			for n, ob := range lr.Obs {
				all[n] = ob
				nChecks++
				if !ob.Proved {
					scripts[n] = lr.Scripts[n]
				}
			}
		}
	}
	_ = solverTime

	// verdicts
	var names []string
	for n := range all {
		names = append(names, n)
	}
	sort.Strings(names)
	isBounded := func(n string) bool {
		for _, b := range ps.Bounded {
			if strings.HasPrefix(n, b) {
				return true
			}
		}
		return false
	}
	violations := 0
	discharged := 0
	nbounded := 0
	bySolver := map[string]int{}
	var records []obRecord
	var samples []any
	dry := os.Getenv("GOVC_DRY") != ""
	report := func(ob, reason string, script string, detail any) {
		if dry {
			// self-test run on a scratch copy: count only, write nothing
			fmt.Printf("DRY-VIOLATION property=%s obligation=%s\n", prop, ob)
			violations++
			return
		}
		dir := filepath.Join(verifDir, "replays", prop)
		os.MkdirAll(dir, 0o755)
		base := sanitize(ob)
		rp := filepath.Join(dir, base+".json")
		vc := ""
		if script != "" {
			vc = filepath.Join(dir, base+".smt2")
			os.WriteFile(vc, []byte(strings.ReplaceAll(script, "@TMO@", "60000")), 0o644)
		}
		rec := map[string]any{"property": prop, "obligation": ob, "reason": reason, "detail": detail, "vc_script": vc,
			"failing_input": nil, "note": "no-failing-input-found: the solver gave no model for this obligation (quantified verification condition); the obligation was discharged on the unchanged tree and no longer is",
			"rerun": fmt.Sprintf("z3 -smt2 %s   # or z3-new / cvc5 --incremental", vc)}
		b, _ := json.MarshalIndent(rec, "", " ")
		os.WriteFile(rp, b, 0o644)
		fmt.Printf("VIOLATION property=%s replay=%s no-failing-input-found\n", prop, rp)
		violations++
	}
	knownFor := func(ob string) *KnownFinding {
		for i := range known {
			if known[i].Status == "known" && known[i].Property == prop && known[i].Obligation == ob {
				return &known[i]
			}
		}
		return nil
	}
	for _, n := range names {
		ob := all[n]
		rec := obRecord{Name: n, Subs: ob.Subs, Solvers: ob.BySolver}
		for s, c := range ob.BySolver {
			bySolver[s] += c
		}
		switch {
		case ob.Proved:
			rec.Status = "proved"
			if ob.Guard {
				rec.Status = "guard-ok"
			}
			if isBounded(n) {
				rec.Status = "bounded-ok"
				nbounded++
			}
			discharged++
		default:
			rec.Status = "failed"
			if ob.Guard {
				rec.Status = "vacuous"
			}
			var det []map[string]any
			for _, f := range ob.Fails {
				det = append(det, map[string]any{"status": f.Status, "note": f.Check.Note, "solvers": f.Detail, "path": f.Path})
			}
			rec.Fails = det
			if kf := knownFor(n); kf != nil {
				fmt.Printf("KNOWN-FINDING: property=%s %s (%s)\n", prop, kf.What, n)
				rec.Status = "known-finding"
				discharged++
			} else {
				report(n, rec.Status, scripts[n], det)
			}
		}
		records = append(records, rec)
	}
	// vacuity guard 1: every baseline obligation must have been generated
	missing := 0
	if baseline != nil {
		// obligations that were discharged on the unchanged tree and are no longer generated: one report per
		// function (its contract no longer applies to its code, or the function left the verifiable subset)
		groups := map[string][]string{}
		var gorder []string
		for _, b := range baseline[prop] {
			if _, ok := all[b]; !ok {
				missing++
				g := b
				for _, k := range keys {
					if strings.HasPrefix(b, k+"/") && (g == b || len(k) > len(g)) {
						g = k
					}
				}
				if _, seen := groups[g]; !seen {
					gorder = append(gorder, g)
				}
				groups[g] = append(groups[g], b)
			}
		}
		for _, g := range gorder {
			var why []string
			for _, tl := range toolLimits {
				if strings.HasPrefix(tl, g+":") {
					why = append(why, tl)
				}
			}
			name := g
			if len(groups[g]) > 1 || groups[g][0] != g {
				name = g + "/obligations-vanished"
			}
			report(name, "obligation-vanished", "", map[string]any{"obligations_discharged_on_the_unchanged_tree_and_no_longer_generated": groups[g], "reason": why, "all_tool_limits": toolLimits})
		}
	}
	for _, tl := range toolLimits {
		fmt.Printf("UNDECIDED: %s\n", tl)
	}
	if len(toolLimits) > 0 && missing == 0 {
		// a function left the verifiable subset and the baseline does not list its obligations yet
		report(prop+"/tool-limit", "tool-limit", "", toolLimits)
	}
	for i, r := range records {
		if i%7 == 0 && len(samples) < 12 {
			samples = append(samples, r)
		}
	}
	sort.Strings(funcsDone)
	trusted = uniq(trusted)
	models = uniq(models)
	inlined = uniq(inlined)
	var modelDocs []string
	for _, m := range models {
		if lm := findLibModel(m); lm != nil {
			modelDocs = append(modelDocs, m+": "+lm.doc)
		}
	}
	tb := []string{
		"go/packages + go/types + go/ssa (golang.org/x/tools v0.29.0) lower /repo's working tree faithfully",
		"govc's symbolic execution of SSA and its VC generation (largest unverified artefact; guarded by the must-fail corpus in /verif/selftest)",
		"SMT solvers are sound for unsat: z3 4.8.12, z3 5.1.0, cvc5 1.0",
		"Go int is treated as a mathematical integer (positions and lengths bounded by len(source))",
		"slices are immutable value sequences; append copies (no aliasing of appended-to slices)",
	}
	tb = append(tb, ps.Assume...)
	ev := map[string]any{
		"property_id": prop, "tier": tier, "seed": seed, "level": "proof",
		"coverage": map[string]any{
			"obligations": len(names) + missing, "discharged": discharged,
			"checker_cmd": fmt.Sprintf("/verif/bin/check %s --tier %s", prop, tier),
			"trusted_base": tb,
			"functions_under_contract": funcsDone,
			"paths": nPaths, "solver_queries": nChecks,
			"discharged_by_backend": bySolver,
			"bounded_obligations": nbounded, "bounded_prefixes": ps.Bounded,
			"assumed_contracts": trusted, "library_models_used": modelDocs,
			"inlined_uncontracted_callees": inlined,
			"undecided_clauses": ps.Undecided,
			"functions_not_yet_under_contract": ps.NotYet,
			"tool_limits": toolLimits,
			"obligation_results": records,
			"samples": samples,
			"baseline_missing": missing,
		},
		"assumptions": append(append([]string{}, tb...), trusted...),
		"wall_s": time.Since(t0).Seconds(), "violations": violations,
	}
	if dry {
		fmt.Printf("%s: dry run, %d violations\n", prop, violations)
		if violations > 0 {
			return 1
		}
		return 0
	}
	if tier == "thorough" && os.Getenv("GOVC_NO_SELFTEST") == "" {
		// vacuity guard 3: the must-fail corpus. Every canary (a revert of a fix: commit, or an independently
		// produced property-breaking change) is applied to a scratch copy of the working tree and must be reported.
		st := E.selftest(prop)
		ev["coverage"].(map[string]any)["selftest_must_fail_corpus"] = st
	}
	os.MkdirAll(filepath.Join(verifDir, "evidence"), 0o755)
	b, _ := json.MarshalIndent(ev, "", " ")
	os.WriteFile(filepath.Join(verifDir, "evidence", prop+".json"), b, 0o644)
	fmt.Printf("%s: %d obligations, %d discharged, %d violations, %d functions, %.1fs\n", prop, len(names)+missing, discharged, violations, len(funcsDone), time.Since(t0).Seconds())
	if violations > 0 {
		return 1
	}
	return 0
}

func uniq(xs []string) []string {
	sort.Strings(xs)
	var out []string
	for i, x := range xs {
		if i == 0 || x != xs[i-1] {
			out = append(out, x)
		}
	}
	return out
}

// verifyFuncLocked: symbolic execution shares the universe (literal table, sort
// registry) and is serialised; the solver runs inside are parallel.
func (E *Engine) verifyFuncLocked(k string) *FuncResult {
	return E.verifyFunc(k)
}

// writeBaseline records the obligation names generated for every mapped property.
func (E *Engine) writeBaseline() int {
	var pm map[string]*PropSpec
	if err := readJSON(filepath.Join(verifDir, "properties.map.json"), &pm); err != nil {
		fmt.Fprintln(os.Stderr, err)
		return 2
	}
	out := map[string][]string{}
	for prop, ps := range pm {
		var names []string
		for _, k := range E.matchFuncs(ps.Functions) {
			if ct := E.CS.get(k); ct != nil && (ct.Trusted || ct.InlineOnly()) {
				continue
			}
			fr := E.verifyFunc(k)
			if fr.Err != nil {
				fmt.Fprintf(os.Stderr, "baseline: %s: %v\n", k, fr.Err)
				continue
			}
			for n, ob := range fr.Obs {
				skip := false
				for _, e := range ps.Exclude {
					if strings.Contains(n, e) {
						skip = true
					}
				}
				if skip {
					continue
				}
				if ob.Proved {
					names = append(names, n)
				} else {
					fmt.Fprintf(os.Stderr, "baseline: %s not proved, left out\n", n)
				}
			}
		}
		for _, ln := range ps.Lemmas {
			mod, lem := ln, ""
			if i := strings.Index(ln, "/"); i > 0 {
				mod, lem = ln[:i], ln[i+1:]
			}
			m := E.Spec.Mods[mod]
			if m == nil {
				continue
			}
			for _, l := range m.Lemmas {
				if lem != "" && l.Name != lem {
					continue
				}
				lr := E.proveLemma(m, l)
				for n, ob := range lr.Obs {
					if ob.Proved {
						names = append(names, n)
					}
				}
			}
		}
		sort.Strings(names)
		out[prop] = names
	}
	b, _ := json.MarshalIndent(out, "", " ")
	os.WriteFile(filepath.Join(verifDir, "baseline_obligations.json"), b, 0o644)
	return 0
}

// selftest applies each canary change that is known to break `prop` to a scratch copy of the repository's
// working tree (outside /repo and /verif, removed afterwards) and runs the quick check of the property on it.
// A canary that is not reported is a weakness of the check, not a violation of the property: it is printed as
// SELFTEST-MISS and recorded in the evidence; the exit status is not affected.
func (E *Engine) selftest(prop string) []map[string]any {
	type canary struct {
		Name, Patch string
		Reverse     bool
		Expect      string
		Benign      bool
	}
	var cs []canary
	var idx []struct {
		Name     string `json:"name"`
		Patch    string `json:"patch"`
		Reverse  bool   `json:"reverse"`
		Property string `json:"property"`
		Expect   string `json:"expect_obligation"`
		Benign   bool     `json:"benign"`
		Props    []string `json:"properties"`
	}
	_ = readJSON(filepath.Join(verifDir, "selftest", "index.json"), &idx)
	for _, e := range idx {
		if e.Property == prop && !e.Benign {
			cs = append(cs, canary{e.Name, filepath.Join(verifDir, e.Patch), e.Reverse, e.Expect, false})
		}
		if e.Benign {
			// must-pass corpus: behaviour-preserving edits of functions under contract; the check must stay silent
			for _, q := range e.Props {
				if q == prop {
					cs = append(cs, canary{e.Name, filepath.Join(verifDir, e.Patch), false, "", true})
				}
			}
		}
	}
	dirs, _ := filepath.Glob(filepath.Join(verifDir, "seeded", "C*"))
	sort.Strings(dirs)
	for _, d := range dirs {
		var m struct {
			Property string   `json:"property"`
			Also     []string `json:"also_check"`
			Catch    string   `json:"caught_by"`
		}
		if readJSON(filepath.Join(d, "meta.json"), &m) != nil {
			continue
		}
		hit := m.Property == prop
		for _, a := range m.Also {
			hit = hit || a == prop
		}
		if hit {
			cs = append(cs, canary{"seed-" + filepath.Base(d), filepath.Join(d, "patch.diff"), false, "", false})
		}
	}
	var out []map[string]any
	self, _ := os.Executable()
	for _, c := range cs {
		rec := map[string]any{"canary": c.Name}
		scratch, err := os.MkdirTemp("", "govc-selftest-")
		if err != nil {
			rec["status"] = "skipped: " + err.Error()
			out = append(out, rec)
			continue
		}
		func() {
			defer os.RemoveAll(scratch)
			if o, err := exec.Command("sh", "-c", fmt.Sprintf("cd %q && tar --exclude=.git -cf - . | (cd %q && tar -xf -)", E.P.Dir, scratch)).CombinedOutput(); err != nil {
				rec["status"] = "skipped: copy failed: " + string(o)
				return
			}
			args := []string{"-p1", "-s", "-f", "-d", scratch, "-i", c.Patch}
			if c.Reverse {
				args = append([]string{"-R"}, args...)
			}
			if o, err := exec.Command("patch", args...).CombinedOutput(); err != nil {
				rec["status"] = "skipped: patch does not apply to the current working tree"
				_ = o
				return
			}
			cmd := exec.Command(self, "check", "-prop", prop, "-tier", "quick", "-repo", scratch)
			mode := "canary"
			if c.Benign {
				mode = "benign"
			}
			cmd.Env = append(os.Environ(), "GOVC_DRY="+mode)
			o, _ := cmd.CombinedOutput()
			n := strings.Count(string(o), "DRY-VIOLATION")
			rec["violations_reported"] = n
			if c.Benign {
				rec["kind"] = "behaviour-preserving edit (must stay silent)"
				if n == 0 {
					rec["status"] = "silent"
				} else {
					rec["status"] = "FALSE-ALARM"
					fmt.Printf("SELFTEST-FALSE-ALARM: property=%s benign change %s is reported by this check\n", prop, c.Name)
				}
				return
			}
			if n > 0 {
				rec["status"] = "reported"
				var obs []string
				for _, l := range strings.Split(string(o), "\n") {
					if i := strings.Index(l, "obligation="); i >= 0 && len(obs) < 4 {
						obs = append(obs, l[i+len("obligation="):])
					}
				}
				rec["first_obligations"] = obs
				if c.Expect != "" {
					rec["expected_obligation_reported"] = strings.Contains(string(o), "obligation="+c.Expect+"\n")
				}
			} else {
				rec["status"] = "MISSED"
				fmt.Printf("SELFTEST-MISS: property=%s canary=%s is not reported by this check\n", prop, c.Name)
			}
		}()
		out = append(out, rec)
	}
	return out
}
