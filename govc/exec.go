package main

import (
	"runtime/debug"
	"os"
	"fmt"
	"go/constant"
	"go/token"
	"go/types"
	"strconv"
	"strings"

	"golang.org/x/tools/go/ssa"
)

type toolLimit struct{ msg string }

func (t toolLimit) Error() string { return t.msg }

func limitf(format string, a ...any) { panic(toolLimit{fmt.Sprintf(format, a...)}) }

type retK func(st *State, results []Val)

type LoopInfo struct {
	Ord    int
	Header *ssa.BasicBlock
	Blocks map[*ssa.BasicBlock]bool
	LC     *LoopContract
}

type PathResult struct {
	Script string
	Checks []Check
	Trace  string
	End    string
}

// Exec verifies one function against its contract.
type Exec struct {
	E      *Engine
	fn     *ssa.Function
	key    string
	ct     *Contract
	loops  map[*ssa.BasicBlock]*LoopInfo
	paths  []*PathResult
	maxPaths int
	inlineDepth int
	okEval      map[string]int
	usedTrusted map[string]bool
	usedModels  map[string]bool
	inlined     map[string]bool
}

func (x *Exec) U() *Universe { return x.E.U }

func (x *Exec) finish(st *State, end string) {
	if st.dead {
		return
	}
	st.dead = true
	if len(st.checks) == 0 {
		return
	}
	x.paths = append(x.paths, &PathResult{Script: st.sb.String(), Checks: st.checks, Trace: strings.Join(st.trace, " "), End: end})
	if len(x.paths) > x.maxPaths {
		limitf("more than %d paths in %s", x.maxPaths, x.key)
	}
}

// ---- values ----------------------------------------------------------------

func (x *Exec) constVal(c *ssa.Const) Val {
	U := x.U()
	t := c.Type()
	if c.Value == nil {
		s := U.sortOf(t)
		if s == "Nil" {
			return Val{S: "Nil", T: "nil", GT: t}
		}
		return Val{S: s, T: U.zero(t), GT: t}
	}
	switch c.Value.Kind() {
	case constant.Bool:
		return Val{S: "Bool", T: strconv.FormatBool(constant.BoolVal(c.Value)), GT: t}
	case constant.String:
		return Val{S: "Str", T: U.lit(constant.StringVal(c.Value)), GT: t}
	case constant.Int:
		s := c.Value.ExactString()
		if b, ok := t.Underlying().(*types.Basic); ok && b.Info()&types.IsFloat != 0 {
			return Val{S: "Real", T: s + ".0", GT: t}
		}
		if strings.HasPrefix(s, "-") {
			s = "(- " + s[1:] + ")"
		}
		return Val{S: "Int", T: s, GT: t}
	case constant.Float:
		f, _ := constant.Float64Val(c.Value)
		return Val{S: "Real", T: strconv.FormatFloat(f, 'f', -1, 64), GT: t}
	}
	limitf("constant %v", c)
	return Val{}
}

func (x *Exec) valOf(st *State, v ssa.Value) Val {
	fr := st.top()
	switch v := v.(type) {
	case *ssa.Const:
		return x.constVal(v)
	case *ssa.Global:
		return Val{GT: v.Type(), A: &Addr{Glob: v, T: v.Type().(*types.Pointer).Elem()}}
	case *ssa.Function:
		return Val{S: "Fn", T: x.U().fnConst(funcKey(v)), GT: v.Type(), Fn: &FnVal{Fn: v}}
	case *ssa.Builtin:
		return Val{GT: v.Type()}
	case *ssa.FreeVar:
		for i, fv := range fr.fn.FreeVars {
			if fv == v {
				if fr.fnval == nil || i >= len(fr.fnval.Bindings) {
					limitf("free variable %s without binding in %s", v.Name(), fr.fn.Name())
				}
				return fr.fnval.Bindings[i]
			}
		}
	}
	r, ok := fr.regs[v]
	if !ok {
		limitf("no value for %s (%T) in %s", v.Name(), v, fr.fn.Name())
	}
	return r
}

// term gives an SMT term for a value; embed=true records that a local
// value-regime object has been embedded somewhere (later stores to it are a
// tool limit).
func (x *Exec) term(st *State, v Val, embed bool) string {
	if v.A != nil && v.T == "" {
		a := v.A
		if a.ObjID > 0 && len(a.Path) == 0 {
			o := st.objs[a.ObjID]
			if o.Kind == objStruct && o.SI != nil && o.SI.PtrRegime {
				if embed {
					if os.Getenv("GOVC_TRACE") != "" && !o.Frozen {
						fmt.Fprintf(os.Stderr, "FREEZE %v\n%s\n", o.T, debug.Stack())
					}
					o.Frozen = true
				}
				return x.structTerm(st, o, embed)
			}
		}
		limitf("address used as a value (%v)", a.T)
	}
	if v.T == "" && v.LazyTail != nil {
		t := v.LazyBase
		for _, e := range v.LazyTail {
			t = fmt.Sprintf("(%s.snoc %s %s)", v.S, t, x.term(st, e, embed))
		}
		return t
	}
	if v.T == "" {
		limitf("value without term (sort %q, type %v)", v.S, v.GT)
	}
	return v.T
}

// liveRecord: v is a pointer to a local record that has not been embedded in another value yet.
func (x *Exec) liveRecord(st *State, v Val) bool {
	if v.A == nil || v.T != "" || v.A.ObjID <= 0 || len(v.A.Path) != 0 {
		return false
	}
	o := st.objs[v.A.ObjID]
	return o != nil && o.Kind == objStruct && o.SI != nil && o.SI.PtrRegime && !o.Frozen
}

func (x *Exec) structTerm(st *State, o *Obj, embed bool) string {
	if len(o.Vals) == 0 {
		return "mk_" + o.SI.Name
	}
	var b strings.Builder
	b.WriteString("(mk_" + o.SI.Name)
	for _, f := range o.Vals {
		b.WriteString(" " + x.term(st, f, embed))
	}
	b.WriteString(")")
	return b.String()
}

func (x *Exec) newObj(st *State, t types.Type, alloc ssa.Value) *Obj {
	U := x.U()
	st.nobj++
	o := &Obj{ID: st.nobj, T: t, Alloc: alloc}
	switch u := t.Underlying().(type) {
	case *types.Struct:
		nt, ok := t.(*types.Named)
		if !ok {
			limitf("anonymous struct alloc")
		}
		o.Kind = objStruct
		o.SI = U.structInfo(nt)
		for _, f := range o.SI.Fields {
			o.Vals = append(o.Vals, x.zeroVal(f.Type, f.Sort))
		}
	case *types.Array:
		o.Kind = objArray
		es := U.sortOf(u.Elem())
		for i := int64(0); i < u.Len(); i++ {
			o.Vals = append(o.Vals, x.zeroVal(u.Elem(), es))
		}
	default:
		o.Kind = objCell
		o.Vals = []Val{x.zeroVal(t, U.sortOf(t))}
	}
	st.objs[o.ID] = o
	return o
}

func (x *Exec) zeroVal(t types.Type, s string) Val {
	if s == "Tuple" || s == "Array" {
		limitf("zero of %v", t)
	}
	return Val{S: s, T: x.U().zero(t), GT: t}
}

// isHeapStruct: struct types whose pointers are references into per-field heaps.
func (x *Exec) isHeapStruct(t types.Type) *StructInfo {
	nt, ok := t.(*types.Named)
	if !ok {
		return nil
	}
	if _, ok := nt.Underlying().(*types.Struct); !ok {
		return nil
	}
	si := x.U().structInfo(nt)
	if si.Sum != "" {
		return nil
	}
	return si
}

// heap-regime struct types are those allocated with new/&T{} and used via
// pointers: everything that is not a sum member and not a plain record value.
// Records (Span, Token) are also struct types; they are distinguished by how
// they are allocated: `local T` (Heap=false) stays a local object, while
// `new T` (Heap=true) goes to the heap.

func (x *Exec) allocHeapObj(st *State, si *StructInfo) string {
	r := st.fresh("ref."+si.Name, "Int")
	st.assume(fmt.Sprintf("(= %s %s)", r, st.alloc))
	na := st.fresh("alloc", "Int")
	st.assume(fmt.Sprintf("(= %s (+ %s 1))", na, st.alloc))
	st.alloc = na
	for i, f := range si.Fields {
		hn := heapName(si, i)
		h := st.heap(hn, f.Sort)
		st.setHeap(hn, f.Sort, fmt.Sprintf("(store %s %s %s)", h, r, x.U().zero(f.Type)))
	}
	return r
}

// ---- addresses ---------------------------------------------------------------

func (x *Exec) load(st *State, a *Addr, ob string) Val {
	U := x.U()
	switch {
	case a.Glob != nil:
		return x.loadGlobal(st, a)
	case a.ObjID > 0:
		o := st.objs[a.ObjID]
		if o == nil {
			limitf("load from unknown local object")
		}
		if len(a.Path) == 0 {
			switch o.Kind {
			case objCell:
				return o.Vals[0]
			case objStruct:
				return Val{S: o.SI.sortName(), T: x.structTerm(st, o, false), GT: o.T}
			}
			limitf("whole-array load")
		}
		v := o.Vals[a.Path[0]]
		cur := v
		if len(a.Path) == 1 {
			return cur
		}
		var ct types.Type
		if o.Kind == objStruct {
			ct = o.SI.Fields[a.Path[0]].Type
		} else {
			ct = o.T.Underlying().(*types.Array).Elem()
		}
		for _, p := range a.Path[1:] {
			si := U.structInfo(ct.(*types.Named))
			cur = Val{S: si.Fields[p].Sort, T: fmt.Sprintf("(%s.%s %s)", si.Name, si.Fields[p].Name, x.term(st, cur, false)), GT: si.Fields[p].Type}
			ct = si.Fields[p].Type
		}
		return cur
	case a.SI != nil && a.SI.Sum != "":
		// field of an immutable node value: selectors
		si := a.SI
		if len(a.Path) == 0 {
			return Val{S: si.Sum, T: a.Ref, GT: si.Named}
		}
		f := si.Fields[a.Path[0]]
		cur := Val{S: f.Sort, T: fmt.Sprintf("(%s.%s %s)", si.Name, f.Name, a.Ref), GT: f.Type}
		ct := f.Type
		for _, p := range a.Path[1:] {
			s2 := U.structInfo(ct.(*types.Named))
			cur = Val{S: s2.Fields[p].Sort, T: fmt.Sprintf("(%s.%s %s)", s2.Name, s2.Fields[p].Name, cur.T), GT: s2.Fields[p].Type}
			ct = s2.Fields[p].Type
		}
		if tk := U.typeOKEager(cur.T, cur.GT); tk != "" {
			st.assume(tk)
		}
		return cur
	default:
		// heap object
		si := a.SI
		if len(a.Path) == 0 {
			// whole struct load from heap
			var b strings.Builder
			b.WriteString("(mk_" + si.Name)
			for i, f := range si.Fields {
				fmt.Fprintf(&b, " (select %s %s)", st.heap(heapName(si, i), f.Sort), a.Ref)
			}
			b.WriteString(")")
			return Val{S: si.sortName(), T: b.String(), GT: si.Named}
		}
		f := si.Fields[a.Path[0]]
		cur := Val{S: f.Sort, T: fmt.Sprintf("(select %s %s)", st.heap(heapName(si, a.Path[0]), f.Sort), a.Ref), GT: f.Type}
		ct := f.Type
		for _, p := range a.Path[1:] {
			s2 := U.structInfo(ct.(*types.Named))
			cur = Val{S: s2.Fields[p].Sort, T: fmt.Sprintf("(%s.%s %s)", s2.Name, s2.Fields[p].Name, cur.T), GT: s2.Fields[p].Type}
			ct = s2.Fields[p].Type
		}
		if tk := U.typeOKEager(cur.T, cur.GT); tk != "" {
			st.assume(tk)
		}
		// heap hygiene: a reference stored in the heap denotes an object that existed when it was stored
		if cur.S == "Int" && len(a.Path) == 1 {
			switch cur.GT.Underlying().(type) {
			case *types.Pointer, *types.Map:
				if at := st.heapAt[heapName(si, a.Path[0])]; at != "" {
					st.assume(fmt.Sprintf("(and (<= 0 %s) (< %s %s))", cur.T, cur.T, at))
				}
			}
		}
		return cur
	}
}

// setPath rebuilds a record term with one nested field replaced.
func (x *Exec) setPath(st *State, cur string, ct types.Type, path []int, nv string) string {
	if len(path) == 0 {
		return nv
	}
	si := x.U().structInfo(ct.(*types.Named))
	var b strings.Builder
	b.WriteString("(mk_" + si.Name)
	for i, f := range si.Fields {
		sel := fmt.Sprintf("(%s.%s %s)", si.Name, f.Name, cur)
		if i == path[0] {
			b.WriteString(" " + x.setPath(st, sel, f.Type, path[1:], nv))
		} else {
			b.WriteString(" " + sel)
		}
	}
	b.WriteString(")")
	return b.String()
}

func (x *Exec) store(st *State, a *Addr, v Val) {
	U := x.U()
	switch {
	case a.Glob != nil:
		x.storeGlobal(st, a, v)
	case a.ObjID > 0:
		o := st.objs[a.ObjID]
		if o.Frozen {
			limitf("store to a node after it was embedded in another value (%v)", o.T)
		}
		if len(a.Path) == 0 {
			switch o.Kind {
			case objCell:
				o.Vals[0] = v
			case objStruct:
				// whole-struct store: decompose
				if v.A != nil && v.A.ObjID > 0 && len(v.A.Path) == 0 {
					src := st.objs[v.A.ObjID]
					copy(o.Vals, src.Vals)
					return
				}
				t := x.term(st, v, true)
				for i, f := range o.SI.Fields {
					o.Vals[i] = Val{S: f.Sort, T: fmt.Sprintf("(%s.%s %s)", o.SI.Name, f.Name, t), GT: f.Type}
				}
			default:
				limitf("whole-array store")
			}
			return
		}
		if len(a.Path) == 1 {
			o.Vals[a.Path[0]] = v
			return
		}
		var ct types.Type
		if o.Kind == objStruct {
			ct = o.SI.Fields[a.Path[0]].Type
		} else {
			ct = o.T.Underlying().(*types.Array).Elem()
		}
		cur := o.Vals[a.Path[0]]
		nt := x.setPath(st, x.term(st, cur, false), ct, a.Path[1:], x.term(st, v, true))
		o.Vals[a.Path[0]] = Val{S: cur.S, T: nt, GT: cur.GT}
	default:
		si := a.SI
		if len(a.Path) == 0 {
			t := x.term(st, v, true)
			for i, f := range si.Fields {
				hn := heapName(si, i)
				h := st.heap(hn, f.Sort)
				st.setHeap(hn, f.Sort, fmt.Sprintf("(store %s %s (%s.%s %s))", h, a.Ref, si.Name, f.Name, t))
			}
			return
		}
		f := si.Fields[a.Path[0]]
		hn := heapName(si, a.Path[0])
		h := st.heap(hn, f.Sort)
		nv := x.term(st, v, true)
		if len(a.Path) > 1 {
			nv = x.setPath(st, fmt.Sprintf("(select %s %s)", h, a.Ref), f.Type, a.Path[1:], nv)
		}
		st.setHeap(hn, f.Sort, fmt.Sprintf("(store %s %s %s)", h, a.Ref, nv))
		_ = U
	}
}

// ---- globals -----------------------------------------------------------------

func globName(g *ssa.Global) string {
	return "glob." + shortPkg(g.Pkg.Pkg.Path()) + "." + g.Name()
}

func (x *Exec) loadGlobal(st *State, a *Addr) Val {
	g := a.Glob
	U := x.U()
	if len(a.Path) > 0 {
		// field of a global struct (knownFunctions.m / .init)
		st0 := g.Type().(*types.Pointer).Elem().Underlying().(*types.Struct)
		f := st0.Field(a.Path[0])
		name := globName(g) + "." + f.Name()
		s := U.sortOf(f.Type())
		if s == "Int" {
			if _, ok := f.Type().Underlying().(*types.Map); ok {
				return Val{S: "Int", T: x.globConst(st, name, "Int"), GT: f.Type()}
			}
		}
		limitf("load of global field %s", name)
	}
	t := a.T
	if _, ok := t.Underlying().(*types.Map); ok {
		return Val{S: "Int", T: x.globConst(st, globName(g), "Int"), GT: t, Inner: &Val{GT: g.Type(), A: a}}
	}
	// other globals (io.EOF, os.Stdin ...): an uninterpreted constant of its sort
	return Val{S: U.sortOf(t), T: x.globConst(st, globName(g), U.sortOf(t)), GT: t}
}

func (x *Exec) globConst(st *State, name, sortName string) string {
	key := "G:" + name
	if _, ok := st.heaps[key]; !ok {
		st.emit("(declare-const %s %s)", name, sortName)
		st.heaps[key] = name
	}
	return name
}

func (x *Exec) storeGlobal(st *State, a *Addr, v Val) {
	// A store to package-level state is never within any frame we grant.
	st.check(x.key+"/frame/global", "false", "store to global "+a.Glob.Name())
}

// ---- running -----------------------------------------------------------------

func (x *Exec) run(st *State, b *ssa.BasicBlock, idx int, k retK) {
	fr := st.top()
	if idx == 0 {
		st.trace = append(st.trace, fmt.Sprintf("%s:%d", fr.fn.Name(), b.Index))
		if len(st.trace) > 4000 {
			limitf("path too long in %s", x.key)
		}
		if !fr.top {
			// an inlined function: a loop is only allowed when its conditions fold to constants
			// (e.g. a range over a sequence literal); count block visits to stop runaway unrolling
			if fr.visits == nil {
				fr.visits = map[*ssa.BasicBlock]int{}
			}
			fr.visits[b]++
			if fr.visits[b] > 8 {
				limitf("loop in inlined function %s does not have a concrete trip count", fr.fn.Name())
			}
		}
		if fr.top {
			if li := x.loops[b]; li != nil {
				if fr.prev != nil && li.Blocks[fr.prev] {
					x.loopBackEdge(st, li)
					return
				}
				if !x.loopEntry(st, li) {
					return
				}
			}
		}
		// phis: parallel assignment
		if !fr.skipPhis {
			var phis []*ssa.Phi
			var vals []Val
			for _, in := range b.Instrs {
				p, ok := in.(*ssa.Phi)
				if !ok {
					break
				}
				pi := -1
				for i, pr := range b.Preds {
					if pr == fr.prev {
						pi = i
					}
				}
				if pi < 0 {
					limitf("phi without predecessor")
				}
				phis = append(phis, p)
				vals = append(vals, x.valOf(st, p.Edges[pi]))
			}
			for i, p := range phis {
				fr.regs[p] = vals[i]
				if p.Comment != "" {
					fr.vars[p.Comment] = vals[i]
				}
			}
		}
		fr.skipPhis = false
	}
	for i := idx; i < len(b.Instrs); i++ {
		in := b.Instrs[i]
		switch in := in.(type) {
		case *ssa.Phi:
			continue
		case *ssa.DebugRef:
			x.debugRef(st, in)
		case *ssa.If:
			c := x.valOf(st, in.Cond)
			ct := x.term(st, c, false)
			t, f := b.Succs[0], b.Succs[1]
			if ct == "true" {
				fr.prev = b
				x.run(st, t, 0, k)
				return
			}
			if ct == "false" {
				fr.prev = b
				x.run(st, f, 0, k)
				return
			}
			st2 := st.clone()
			st.assume(ct)
			st.top().prev = b
			if !st.infeasible {
				x.run(st, t, 0, k)
			}
			st2.assume("(not " + ct + ")")
			st2.top().prev = b
			if !st2.infeasible {
				x.run(st2, f, 0, k)
			}
			return
		case *ssa.Jump:
			fr.prev = b
			x.run(st, b.Succs[0], 0, k)
			return
		case *ssa.Return:
			var rs []Val
			for _, r := range in.Results {
				rs = append(rs, x.valOf(st, r))
			}
			k(st, rs)
			return
		case *ssa.Panic:
			st.check(x.key+"/safety/panic", "false", "reachable panic at "+x.pos(in.Pos()))
			x.finish(st, "panic")
			return
		case *ssa.RunDefers:
			ds := fr.defers
			fr.defers = nil
			x.runDefers(st, ds, func(st *State) { x.run(st, b, i+1, k) })
			return
		case *ssa.Defer:
			fv := x.valOf(st, in.Call.Value)
			if fv.Fn == nil || len(in.Call.Args) != 0 {
				limitf("defer of a non-closure or with arguments")
			}
			fr.defers = append(fr.defers, fv)
		case ssa.CallInstruction:
			if _, isGo := in.(*ssa.Go); isGo {
				limitf("go statement")
			}
			call := in.(*ssa.Call)
			x.call(st, call, func(st *State, rs []Val) {
				fr := st.top()
				switch len(rs) {
				case 0:
					fr.regs[call] = Val{}
				case 1:
					if call.Type().Underlying() != nil {
						if _, isTup := call.Type().(*types.Tuple); isTup {
							fr.regs[call] = Val{Tup: rs}
						} else {
							fr.regs[call] = rs[0]
						}
					}
				default:
					fr.regs[call] = Val{Tup: rs}
				}
				x.run(st, b, i+1, k)
			})
			return
		default:
			x.step(st, in)
			if st.dead {
				return
			}
		}
	}
	limitf("block without terminator")
}

func (x *Exec) pos(p token.Pos) string {
	if !p.IsValid() {
		return "?"
	}
	ps := x.E.P.Fset.Position(p)
	fn := ps.Filename
	if i := strings.Index(fn, "/repo/"); i >= 0 {
		fn = fn[i+6:]
	}
	return fmt.Sprintf("%s:%d", fn, ps.Line)
}

func (x *Exec) debugRef(st *State, d *ssa.DebugRef) {
	fr := st.top()
	id, ok := d.Expr.(interface{ String() string })
	_ = id
	_ = ok
	obj := d.Object()
	if obj == nil {
		return
	}
	if tv, isVar := obj.(*types.Var); !isVar || tv.IsField() {
		return
	}
	if cur, ok := fr.vars[obj.Name()]; ok && cur.S == "@addr" && !d.IsAddr {
		// address-taken local: the cell is the source of truth
		return
	}
	v := x.valOf(st, d.X)
	if d.IsAddr {
		if v.A == nil {
			return
		}
		fr.vars[obj.Name()] = Val{GT: obj.Type(), A: v.A, S: "@addr"}
		return
	}
	fr.vars[obj.Name()] = v
	if pt, ok := obj.Type().(*types.Pointer); ok {
		if nt, ok := pt.Elem().(*types.Named); ok {
			if v.GT == nil {
				v.GT = obj.Type()
			}
			fr.vars[obj.Name()+"_"+nt.Obj().Name()] = v
		}
	}
}

func (x *Exec) runDefers(st *State, ds []Val, k func(*State)) {
	if len(ds) == 0 {
		k(st)
		return
	}
	d := ds[len(ds)-1]
	x.inline(st, d.Fn, nil, func(st *State, _ []Val) {
		x.runDefers(st, ds[:len(ds)-1], k)
	})
}

// ---- straight-line instructions ------------------------------------------------

func (x *Exec) step(st *State, in ssa.Instruction) {
	U := x.U()
	fr := st.top()
	set := func(v ssa.Value, r Val) {
		if r.GT == nil {
			r.GT = v.Type()
		}
		fr.regs[v] = r
	}
	switch in := in.(type) {
	case *ssa.Alloc:
		et := in.Type().(*types.Pointer).Elem()
		if in.Heap {
			if si := x.isHeapStruct(et); si != nil {
				r := x.allocHeapObj(st, si)
				set(in, Val{S: "Int", T: r})
				switch in.Comment {
				case "", "complit", "varargs", "new":
				default:
					fr.vars[in.Comment] = Val{S: "Int", T: r, GT: in.Type()}
				}
				return
			}
		}
		o := x.newObj(st, et, in)
		set(in, Val{A: &Addr{ObjID: o.ID, T: et}})
		switch in.Comment {
		case "", "complit", "varargs", "new", "makeslice", "slicelit", "typeassert", "ok":
		default:
			fr.vars[in.Comment] = Val{GT: et, A: &Addr{ObjID: o.ID, T: et}, S: "@addr"}
		}
	case *ssa.FieldAddr:
		base := x.valOf(st, in.X)
		stT := in.X.Type().Underlying().(*types.Pointer).Elem()
		ft := stT.Underlying().(*types.Struct).Field(in.Field).Type()
		if base.A != nil && base.T == "" {
			a := *base.A
			a.Path = append(append([]int(nil), a.Path...), in.Field)
			a.T = ft
			set(in, Val{A: &a})
			return
		}
		nt, ok := stT.(*types.Named)
		if !ok {
			limitf("field of anonymous struct pointer")
		}
		si := U.structInfo(nt)
		if base.S == "@elem" && si.Sum == "" {
			// field of a record that is an element of a slice value (&s[i]).f: a read-only pseudo address
			f := si.Fields[in.Field]
			set(in, Val{S: "@elem", T: fmt.Sprintf("(%s.%s %s)", si.Name, f.Name, base.T), GT: ft, A: &Addr{Ref: "@elem", T: ft}})
			return
		}
		if si.Sum != "" {
			// field of an immutable node: a read-only pseudo address
			t := x.term(st, base, false)
			st.check(x.key+"/safety/nil", fmt.Sprintf("((_ is mk_%s) %s)", si.Name, t), "field access "+si.Name+"."+si.Fields[in.Field].Name+" at "+x.pos(in.Pos()))
			set(in, Val{A: &Addr{Ref: t, SI: si, Path: []int{in.Field}, T: ft}, S: "@node"})
			return
		}
		t := x.term(st, base, false)
		st.check(x.key+"/safety/nil", fmt.Sprintf("(not (= %s 0))", t), "field access through pointer at "+x.pos(in.Pos()))
		set(in, Val{A: &Addr{Ref: t, SI: si, Path: []int{in.Field}, T: ft}})
	case *ssa.Field:
		base := x.valOf(st, in.X)
		nt, ok := in.X.Type().(*types.Named)
		if !ok {
			if base.Tup != nil {
				set(in, base.Tup[in.Field])
				return
			}
			limitf("field of anonymous struct value")
		}
		si := U.structInfo(nt)
		f := si.Fields[in.Field]
		set(in, Val{S: f.Sort, T: fmt.Sprintf("(%s.%s %s)", si.Name, f.Name, x.term(st, base, false)), GT: f.Type})
	case *ssa.IndexAddr:
		base := x.valOf(st, in.X)
		idx := x.valOf(st, in.Index)
		if base.A != nil && base.T == "" {
			// pointer to local array
			c, ok := in.Index.(*ssa.Const)
			if !ok {
				limitf("non-constant index into local array")
			}
			n, _ := constant.Int64Val(c.Value)
			a := *base.A
			a.Path = append(append([]int(nil), a.Path...), int(n))
			a.T = a.T.Underlying().(*types.Array).Elem()
			set(in, Val{A: &a})
			return
		}
		// element of a slice value: read-only pseudo address
		if _, ok := in.X.Type().Underlying().(*types.Slice); !ok {
			limitf("IndexAddr on %v", in.X.Type())
		}
		it := x.term(st, idx, false)
		bt := x.term(st, base, false)
		if base.Elems != nil {
			if n, ok := parseIntLit(it); ok && n >= 0 && int(n) < len(base.Elems) {
				// element of a sequence literal at a constant index: the element itself
				// (keeps statically known function values)
				e := base.Elems[n]
				et := in.X.Type().Underlying().(*types.Slice).Elem()
				set(in, Val{S: "@elemv", GT: et, Inner: &e})
				return
			}
		}
		st.check(x.key+"/safety/index", fmt.Sprintf("(and (<= 0 %s) (< %s (%s.len %s)))", it, it, base.S, bt), "index at "+x.pos(in.Pos()))
		et := in.X.Type().Underlying().(*types.Slice).Elem()
		set(in, Val{S: "@elem", T: fmt.Sprintf("(%s.nth %s %s)", base.S, bt, it), GT: et, A: &Addr{Ref: "@elem", T: et}, Inner: &Val{S: base.S, T: bt}, Elems: []Val{idx}})
	case *ssa.Index:
		base := x.valOf(st, in.X)
		idx := x.valOf(st, in.Index)
		it := x.term(st, idx, false)
		bt := x.term(st, base, false)
		st.check(x.key+"/safety/index", fmt.Sprintf("(and (<= 0 %s) (< %s (%s.len %s)))", it, it, base.S, bt), "index at "+x.pos(in.Pos()))
		set(in, Val{S: U.seqElem(base.S), T: fmt.Sprintf("(%s.nth %s %s)", base.S, bt, it)})
	case *ssa.UnOp:
		x.unop(st, in, set)
	case *ssa.BinOp:
		x.binop(st, in, set)
	case *ssa.Store:
		addr := x.valOf(st, in.Addr)
		v := x.valOf(st, in.Val)
		if addr.S == "@elem" {
			limitf("store to a slice element at %s (slices are immutable sequences in this model)", x.pos(in.Pos()))
		}
		if addr.S == "@node" {
			// only records under construction in this function may be mutated; a store through any other
			// node pointer must be unreachable (it is on paths where the pointer is nil)
			st.check(x.key+"/subset/immutable-node-store", "false", "store to a field of a node that is not under construction here, at "+x.pos(in.Pos()))
			x.finish(st, "immutable-node-store")
			st.dead = true
			return
		}
		if addr.A == nil {
			limitf("store through untracked pointer at %s", x.pos(in.Pos()))
		}
		if v.S == "Nil" {
			v = x.zeroVal(addr.A.T, U.sortOf(addr.A.T))
		}
		x.store(st, addr.A, v)
	case *ssa.Extract:
		t := x.valOf(st, in.Tuple)
		if t.Tup == nil || in.Index >= len(t.Tup) {
			limitf("extract from non-tuple")
		}
		set(in, t.Tup[in.Index])
	case *ssa.MakeInterface:
		v := x.valOf(st, in.X)
		ts := U.sortOf(in.Type())
		if v.A != nil && v.T == "" {
			// pointer to a local value-regime object: keep the address
			if v.A.ObjID > 0 {
				o := st.objs[v.A.ObjID]
				if o.SI != nil && o.SI.Sum == ts {
					set(in, Val{A: v.A, GT: in.Type()})
					return
				}
			}
		}
		if v.S == ts {
			set(in, Val{S: ts, T: v.T, GT: in.Type()})
			return
		}
		if ts == "Any" {
			inner := v
			set(in, Val{S: "Any", T: st.fresh("any", "Any"), GT: in.Type(), Inner: &inner})
			return
		}
		if ts == "Err" {
			// some other concrete error type: an opaque non-nil error
			id := st.fresh("errid", "Int")
			set(in, Val{S: "Err", T: fmt.Sprintf("(EOther %s)", id), GT: in.Type()})
			return
		}
		limitf("MakeInterface %v -> %v", in.X.Type(), in.Type())
	case *ssa.ChangeInterface:
		v := x.valOf(st, in.X)
		ts := U.sortOf(in.Type())
		if ts == "Any" && v.S != "Any" {
			inner := v
			set(in, Val{S: "Any", T: st.fresh("any", "Any"), GT: in.Type(), Inner: &inner})
			return
		}
		if v.S != ts && !(v.A != nil && v.T == "") {
			limitf("ChangeInterface across sorts %s -> %s", v.S, ts)
		}
		v.GT = in.Type()
		set(in, v)
	case *ssa.ChangeType:
		v := x.valOf(st, in.X)
		v.GT = in.Type()
		set(in, v)
	case *ssa.Convert:
		v := x.valOf(st, in.X)
		fs, ts := U.sortOf(in.X.Type()), U.sortOf(in.Type())
		switch {
		case fs == ts:
			v.GT = in.Type()
			set(in, v)
		case fs == "Int" && ts == "Str":
			set(in, Val{S: "Str", T: fmt.Sprintf("(Str.ofRune %s)", x.term(st, v, false))})
		case fs == "Real" && ts == "Int":
			set(in, Val{S: "Int", T: fmt.Sprintf("(to_int %s)", x.term(st, v, false))})
		case fs == "Int" && ts == "Real":
			set(in, Val{S: "Real", T: fmt.Sprintf("(to_real %s)", x.term(st, v, false))})
		default:
			limitf("convert %v -> %v", in.X.Type(), in.Type())
		}
	case *ssa.Slice:
		x.slice(st, in, set)
	case *ssa.MakeSlice:
		s := U.sortOf(in.Type())
		n := x.term(st, x.valOf(st, in.Len), false)
		if n == "0" {
			set(in, Val{S: s, T: s + ".empty"})
		} else {
			r := st.fresh("mkslice", s)
			st.assume(fmt.Sprintf("(= (%s.len %s) %s)", s, r, n))
			set(in, Val{S: s, T: r})
		}
	case *ssa.TypeAssert:
		x.typeAssert(st, in, set)
	case *ssa.Lookup:
		x.lookup(st, in, set)
	case *ssa.MakeMap:
		x.makeMap(st, in, set)
	case *ssa.MapUpdate:
		x.mapUpdate(st, in)
	case *ssa.MakeClosure:
		fn := in.Fn.(*ssa.Function)
		var bs []Val
		for _, b := range in.Bindings {
			bs = append(bs, x.valOf(st, b))
		}
		set(in, Val{S: "Fn", T: x.U().fnConst(funcKey(fn)), Fn: &FnVal{Fn: fn, Bindings: bs}})
	case *ssa.Range:
		x.rangeInit(st, in, set)
	case *ssa.Next:
		x.rangeNext(st, in, set)
	default:
		limitf("unsupported instruction %T at %s", in, x.pos(in.Pos()))
	}
}

func (U *Universe) seqElem(s string) string {
	if e, ok := U.seqs[s]; ok {
		return e
	}
	panic("not a sequence sort: " + s)
}

func (x *Exec) unop(st *State, in *ssa.UnOp, set func(ssa.Value, Val)) {
	v := x.valOf(st, in.X)
	switch in.Op {
	case token.MUL:
		if v.S == "@elemv" {
			set(in, *v.Inner)
			return
		}
		if v.S == "@elem" {
			r := Val{S: x.U().sortOf(v.GT), T: v.T, GT: v.GT}
			if tk := x.U().typeOKEager(r.T, r.GT); tk != "" {
				st.assume(tk)
			}
			set(in, r)
			return
		}
		if v.A == nil {
			// load of whole struct through a value-regime pointer (*e with e *parseError)
			pt, ok := in.X.Type().Underlying().(*types.Pointer)
			if ok {
				if nt, ok := pt.Elem().(*types.Named); ok {
					si := x.U().structInfo(nt)
					if si.PtrRegime {
						t := x.term(st, v, false)
						st.check(x.key+"/safety/nil", fmt.Sprintf("((_ is mk_%s) %s)", si.Name, t), "dereference at "+x.pos(in.Pos()))
						set(in, Val{S: si.Sum, T: t, GT: nt})
						return
					}
					if si.Sum == "" {
						t := x.term(st, v, false)
						st.check(x.key+"/safety/nil", fmt.Sprintf("(not (= %s 0))", t), "dereference at "+x.pos(in.Pos()))
						set(in, x.load(st, &Addr{Ref: t, SI: si, T: nt}, ""))
						return
					}
				}
			}
			limitf("load through untracked pointer %v at %s", in.X.Type(), x.pos(in.Pos()))
		}
		r := x.load(st, v.A, "")
		set(in, r)
	case token.NOT:
		t := x.term(st, v, false)
		set(in, Val{S: "Bool", T: "(not " + t + ")"})
	case token.SUB:
		t := x.term(st, v, false)
		set(in, Val{S: v.S, T: "(- " + t + ")"})
	default:
		limitf("unop %v", in.Op)
	}
}

func (x *Exec) binop(st *State, in *ssa.BinOp, set func(ssa.Value, Val)) {
	a, b := x.valOf(st, in.X), x.valOf(st, in.Y)
	// nil comparisons
	if a.S == "Nil" && b.S != "Nil" {
		a = x.nilOf(in.Y.Type(), b)
	}
	if b.S == "Nil" && a.S != "Nil" {
		b = x.nilOf(in.X.Type(), a)
	}
	at, bt := x.term(st, a, false), x.term(st, b, false)
	s := a.S
	if s == "" {
		s = x.U().sortOf(in.X.Type())
	}
	// fold integer literals (keeps loops over sequence literals concrete)
	if ca, ok1 := parseIntLit(at); ok1 {
		if cb, ok2 := parseIntLit(bt); ok2 && s == "Int" {
			lit := func(n int64) string {
				if n < 0 {
					return fmt.Sprintf("(- %d)", -n)
				}
				return fmt.Sprint(n)
			}
			bl := func(v bool) { set(in, Val{S: "Bool", T: fmt.Sprint(v)}) }
			switch in.Op {
			case token.ADD:
				set(in, Val{S: "Int", T: lit(ca + cb)})
				return
			case token.SUB:
				set(in, Val{S: "Int", T: lit(ca - cb)})
				return
			case token.EQL:
				bl(ca == cb)
				return
			case token.NEQ:
				bl(ca != cb)
				return
			case token.LSS:
				bl(ca < cb)
				return
			case token.LEQ:
				bl(ca <= cb)
				return
			case token.GTR:
				bl(ca > cb)
				return
			case token.GEQ:
				bl(ca >= cb)
				return
			}
		}
	}
	r := func(sortName, f string) { set(in, Val{S: sortName, T: fmt.Sprintf(f, at, bt)}) }
	switch in.Op {
	case token.ADD:
		if s == "Str" {
			r("Str", "(Str.cat %s %s)")
		} else {
			r(s, "(+ %s %s)")
		}
	case token.SUB:
		r(s, "(- %s %s)")
	case token.MUL:
		r(s, "(* %s %s)")
	case token.QUO:
		if s == "Int" {
			st.check(x.key+"/safety/div", fmt.Sprintf("(not (= %s 0))", bt), "division at "+x.pos(in.Pos()))
			r(s, "(gdiv %s %s)")
		} else {
			r(s, "(/ %s %s)")
		}
	case token.REM:
		st.check(x.key+"/safety/div", fmt.Sprintf("(not (= %s 0))", bt), "remainder at "+x.pos(in.Pos()))
		r(s, "(grem %s %s)")
	case token.EQL:
		r("Bool", "(= %s %s)")
	case token.NEQ:
		r("Bool", "(not (= %s %s))")
	case token.LSS:
		r("Bool", "(< %s %s)")
	case token.LEQ:
		r("Bool", "(<= %s %s)")
	case token.GTR:
		r("Bool", "(> %s %s)")
	case token.GEQ:
		r("Bool", "(>= %s %s)")
	case token.LAND, token.AND:
		if s == "Bool" {
			r("Bool", "(and %s %s)")
		} else {
			limitf("bitwise and")
		}
	case token.LOR, token.OR:
		if s == "Bool" {
			r("Bool", "(or %s %s)")
		} else {
			limitf("bitwise or")
		}
	default:
		limitf("binop %v", in.Op)
	}
}

func (x *Exec) nilOf(t types.Type, other Val) Val {
	s := x.U().sortOf(t)
	return Val{S: s, T: x.U().zero(t), GT: t}
}

func (x *Exec) slice(st *State, in *ssa.Slice, set func(ssa.Value, Val)) {
	U := x.U()
	base := x.valOf(st, in.X)
	if base.A != nil && base.T == "" && base.A.ObjID > 0 {
		// slice of a pointer to a local array: t[:]
		o := st.objs[base.A.ObjID]
		if o.Kind != objArray || in.Low != nil || in.High != nil {
			limitf("partial slice of local array")
		}
		s := U.sortOf(in.Type())
		// a sequence literal: the canonical snoc term (so that specifications can name the same
		// sequence), plus ground facts about its length and elements (consequences of the axioms,
		// stated to spare the solver the unfolding)
		onlyAppend := in.Referrers() != nil && len(*in.Referrers()) > 0
		if onlyAppend {
			for _, r := range *in.Referrers() {
				if _, dbg := r.(*ssa.DebugRef); dbg {
					continue
				}
				c, ok := r.(*ssa.Call)
				if !ok {
					onlyAppend = false
					break
				}
				if b, ok := c.Call.Value.(*ssa.Builtin); !ok || b.Name() != "append" || len(c.Call.Args) != 2 || c.Call.Args[1] != ssa.Value(in) {
					onlyAppend = false
					break
				}
			}
		}
		for _, e := range o.Vals {
			if onlyAppend && x.liveRecord(st, e) {
				// the array holds a pointer to a record that is still being filled in (the variadic argument of
				// append(s, col)): keep the elements, read them when the sequence is needed as a value
				set(in, Val{S: s, LazyBase: s + ".empty", LazyTail: append([]Val(nil), o.Vals...), Elems: append([]Val(nil), o.Vals...)})
				return
			}
		}
		t := s + ".empty"
		var elems []Val
		var ets []string
		for _, e := range o.Vals {
			et := x.term(st, e, true)
			ets = append(ets, et)
			t = fmt.Sprintf("(%s.snoc %s %s)", s, t, et)
			elems = append(elems, e)
		}
		if len(o.Vals) > 0 {
			c := st.fresh("seqlit", s)
			st.assume(fmt.Sprintf("(= %s %s)", c, t))
			st.assume(fmt.Sprintf("(= (%s.len %s) %d)", s, c, len(o.Vals)))
			for i, et := range ets {
				st.assume(fmt.Sprintf("(= (%s.nth %s %d) %s)", s, c, i, et))
			}
			t = c
		}
		set(in, Val{S: s, T: t, Elems: elems})
		return
	}
	bt := x.term(st, base, false)
	s := base.S
	lo := "0"
	if in.Low != nil {
		lo = x.term(st, x.valOf(st, in.Low), false)
	}
	hi := fmt.Sprintf("(%s.len %s)", s, bt)
	if base.Elems != nil {
		hi = fmt.Sprint(len(base.Elems))
	}
	if in.High != nil {
		hi = x.term(st, x.valOf(st, in.High), false)
	}
	if base.Elems != nil {
		// a sequence literal sliced at constant bounds stays a sequence literal
		l, ok1 := parseIntLit(lo)
		h, ok2 := parseIntLit(hi)
		if ok1 && ok2 && 0 <= l && l <= h && int(h) <= len(base.Elems) {
			sub := base.Elems[l:h]
			t := s + ".empty"
			var ets []string
			for _, e := range sub {
				et := x.term(st, e, true)
				ets = append(ets, et)
				t = fmt.Sprintf("(%s.snoc %s %s)", s, t, et)
			}
			if len(sub) > 0 {
				c := st.fresh("seqlit", s)
				st.assume(fmt.Sprintf("(= %s %s)", c, t))
				st.assume(fmt.Sprintf("(= (%s.len %s) %d)", s, c, len(sub)))
				for i, et := range ets {
					st.assume(fmt.Sprintf("(= (%s.nth %s %d) %s)", s, c, i, et))
				}
				t = c
			}
			set(in, Val{S: s, T: t, Elems: append([]Val(nil), sub...)})
			return
		}
	}
	st.check(x.key+"/safety/slice", fmt.Sprintf("(and (<= 0 %s) (<= %s %s) (<= %s (%s.len %s)))", lo, lo, hi, hi, s, bt), "slice bounds at "+x.pos(in.Pos()))
	if lo == "0" && in.High == nil {
		set(in, base)
		return
	}
	set(in, Val{S: s, T: fmt.Sprintf("(%s.slice %s %s %s)", s, bt, lo, hi)})
}

func (x *Exec) typeAssert(st *State, in *ssa.TypeAssert, set func(ssa.Value, Val)) {
	U := x.U()
	v := x.valOf(st, in.X)
	vt := x.term(st, v, false)
	at := in.AssertedType
	ts := U.sortOf(at)
	var ok string
	if _, isIface := in.X.Type().Underlying().(*types.Interface); isIface {
		if tk := U.typeOK(vt, in.X.Type()); tk != "" {
			st.assume(tk)
		}
	}
	switch {
	case v.S == "Node" || v.S == "Err" || (v.A != nil && v.T == ""):
		srcSort := v.S
		if srcSort == "" {
			srcSort = U.sortOf(in.X.Type())
		}
		if pt, isPtr := at.Underlying().(*types.Pointer); isPtr {
			si := U.structInfo(pt.Elem().(*types.Named))
			if si.Sum != srcSort {
				ok = "false"
			} else {
				nilp := "nilp"
				if srcSort == "Err" {
					nilp = "nilpE"
				}
				ok = fmt.Sprintf("(or ((_ is mk_%s) %s) (= %s (%s %d)))", si.Name, vt, vt, nilp, si.Tag)
			}
		} else if nt, isNamed := at.(*types.Named); isNamed {
			switch u := nt.Underlying().(type) {
			case *types.Struct:
				si := U.structInfo(nt)
				if si.Sum != srcSort {
					ok = "false"
				} else {
					ok = fmt.Sprintf("((_ is mk_%s) %s)", si.Name, vt)
				}
			case *types.Interface:
				if srcSort == "Err" && ts != "Err" {
					limitf("type assertion of an error to interface %v", at)
				} else if srcSort == "Err" && ts == "Err" {
					if isMultiUnwrapper(u) {
						ok = fmt.Sprintf("((_ is EJoin) %s)", vt)
					} else if isErrorType(nt) {
						ok = fmt.Sprintf("(not (= %s ErrNil))", vt)
					} else {
						limitf("type assertion to interface %v", at)
					}
				} else if srcSort == "Node" && ts == "Node" {
					tk := U.typeOK(vt, at)
					ok = fmt.Sprintf("(and (not (= %s nilN)) %s)", vt, tk)

				} else {
					ok = "false"
				}
			default:
				limitf("type assertion to %v", at)
			}
		} else {
			limitf("type assertion to %v", at)
		}
	case v.S == "Any":
		okc := st.fresh("assert_ok", "Bool")
		ok = okc
		if v.Inner != nil {
			// static knowledge of the dynamic type
			if types.Identical(v.Inner.GT, at) {
				ok = "true"
				vt = x.term(st, *v.Inner, false)
			}
		}
		if ok != "true" {
			r := st.fresh("assert_val", ts)
			vt = r
		}
	default:
		limitf("type assertion on sort %s", v.S)
	}
	res := Val{S: ts, T: vt, GT: at}
	if in.CommaOk {
		z := U.zero(at)
		if ok != "true" {
			res.T = fmt.Sprintf("(ite %s %s %s)", ok, vt, z)
		}
		set(in, Val{Tup: []Val{res, {S: "Bool", T: ok}}})
		return
	}
	st.check(x.key+"/safety/assert", ok, "type assertion at "+x.pos(in.Pos()))
	set(in, res)
}
