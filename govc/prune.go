package main

import (
	"regexp"
	"strconv"
	"strings"
)

// Cheap, sound pruning of infeasible paths: interval facts about terms that are
// compared with integer constants (character class tests). A path is dropped
// only when the facts assumed on it are contradictory on their own.

type bounds struct {
	lo, hi     int64
	hasLo, hasHi bool
	neq        map[int64]bool
}

var reCmp = regexp.MustCompile(`^\((<=|<|>=|>|=) (\S+|\(- \d+\)) (\S+|\(- \d+\))\)$`)

func parseIntLit(s string) (int64, bool) {
	if strings.HasPrefix(s, "(- ") && strings.HasSuffix(s, ")") {
		n, err := strconv.ParseInt(s[3:len(s)-1], 10, 64)
		return -n, err == nil
	}
	n, err := strconv.ParseInt(s, 10, 64)
	return n, err == nil
}

// learn records a simple comparison; returns false if the state became contradictory.
func (st *State) learn(term string) bool {
	neg := false
	t := term
	for strings.HasPrefix(t, "(not ") && strings.HasSuffix(t, ")") {
		neg = !neg
		t = t[5 : len(t)-1]
	}
	if t == "false" && !neg || t == "true" && neg {
		return false
	}
	m := reCmp.FindStringSubmatch(t)
	if m == nil {
		return true
	}
	op, a, b := m[1], m[2], m[3]
	ca, aIsC := parseIntLit(a)
	cb, bIsC := parseIntLit(b)
	if aIsC == bIsC {
		if aIsC {
			// constant comparison
			var v bool
			switch op {
			case "<=":
				v = ca <= cb
			case "<":
				v = ca < cb
			case ">=":
				v = ca >= cb
			case ">":
				v = ca > cb
			case "=":
				v = ca == cb
			}
			return v != neg
		}
		return true
	}
	// normalise to  x op c
	x, c := a, cb
	if aIsC {
		x, c = b, ca
		switch op {
		case "<=":
			op = ">="
		case "<":
			op = ">"
		case ">=":
			op = "<="
		case ">":
			op = "<"
		}
	}
	if strings.ContainsAny(x, "() ") {
		return true // only plain symbols
	}
	if neg {
		switch op {
		case "<=":
			op = ">"
		case "<":
			op = ">="
		case ">=":
			op = "<"
		case ">":
			op = "<="
		case "=":
			op = "!="
		}
	}
	if st.facts == nil {
		st.facts = map[string]*bounds{}
	}
	bd := st.facts[x]
	if bd == nil {
		bd = &bounds{neq: map[int64]bool{}}
		st.facts[x] = bd
	}
	setLo := func(v int64) {
		if !bd.hasLo || v > bd.lo {
			bd.lo, bd.hasLo = v, true
		}
	}
	setHi := func(v int64) {
		if !bd.hasHi || v < bd.hi {
			bd.hi, bd.hasHi = v, true
		}
	}
	switch op {
	case "<=":
		setHi(c)
	case "<":
		setHi(c - 1)
	case ">=":
		setLo(c)
	case ">":
		setLo(c + 1)
	case "=":
		setLo(c)
		setHi(c)
	case "!=":
		bd.neq[c] = true
	}
	if bd.hasLo && bd.hasHi {
		if bd.lo > bd.hi {
			return false
		}
		// all values in a small range excluded?
		if bd.hi-bd.lo < 64 {
			ok := false
			for v := bd.lo; v <= bd.hi; v++ {
				if !bd.neq[v] {
					ok = true
					break
				}
			}
			if !ok {
				return false
			}
		}
	}
	return true
}

func (st *State) cloneFacts() map[string]*bounds {
	if st.facts == nil {
		return nil
	}
	n := make(map[string]*bounds, len(st.facts))
	for k, b := range st.facts {
		nb := *b
		nb.neq = make(map[int64]bool, len(b.neq))
		for v := range b.neq {
			nb.neq[v] = true
		}
		n[k] = &nb
	}
	return n
}
