package main

import (
	"golang.org/x/tools/go/ssa"
	"flag"
	"fmt"
	"os"
	"path/filepath"
	"sort"
	"strings"
)

func newEngine(repo, specDir, contractsDir string) (*Engine, error) {
	P, err := loadProgram(repo)
	if err != nil {
		return nil, err
	}
	U := newUniverse(P)
	// strings.Builder: a heap object with one ghost field, its content
	var cfiles []string
	for _, rel := range []string{"contracts_verif.go", "parser/contracts_verif.go", "cmd/pql/contracts_verif.go"} {
		f := filepath.Join(repo, rel)
		if _, err := os.Stat(f); err == nil {
			cfiles = append(cfiles, f)
			continue
		}
		// fall back to the mirror kept in /verif/contracts (repository restored without the hook commits)
		m := filepath.Join(contractsDir, strings.ReplaceAll(rel, "/", "__"))
		if _, err := os.Stat(m); err == nil {
			cfiles = append(cfiles, m)
		}
	}
	CS, err := loadContracts(cfiles)
	if err != nil {
		return nil, err
	}
	Spec, err := loadSpecs(specDir, U)
	if err != nil {
		return nil, err
	}
	E := &Engine{P: P, U: U, CS: CS, Spec: Spec, needCat: map[string]bool{}, globalMapsRead: map[string]bool{},
		allocCache: map[*ssa.Function]map[string]bool{}, callees: map[*ssa.Function][]*ssa.Function{}, reachCache: map[*ssa.Function]map[*ssa.Function]bool{},
		TimeoutQ: 6000, TimeoutR: 30000}
	E.registerGenerated()
	wd, err := os.MkdirTemp("", "govc")
	if err != nil {
		return nil, err
	}
	E.WorkDir = wd
	return E, nil
}

func main() {
	if len(os.Args) < 2 {
		fmt.Fprintln(os.Stderr, "usage: govc {list|verify|check|lemmas} ...")
		os.Exit(2)
	}
	cmd := os.Args[1]
	fs := flag.NewFlagSet(cmd, flag.ExitOnError)
	repo := fs.String("repo", "/repo", "repository")
	spec := fs.String("spec", "/verif/spec", "spec modules")
	cdir := fs.String("contracts", "/verif/contracts", "contract mirror")
	funcs := fs.String("funcs", "", "comma separated function keys (verify)")
	dump := fs.String("dump", "", "directory to dump VC scripts to")
	verbose := fs.Bool("v", false, "verbose")
	prop := fs.String("prop", "", "property id (check)")
	tier := fs.String("tier", "quick", "quick|thorough")
	fs.Parse(os.Args[2:])
	E, err := newEngine(*repo, *spec, *cdir)
	if err != nil {
		fmt.Fprintln(os.Stderr, "govc:", err)
		os.Exit(2)
	}
	defer os.RemoveAll(E.WorkDir)
	E.Tier = *tier
	switch cmd {
	case "list":
		for _, n := range E.P.sortedFuncNames() {
			c := ""
			if E.CS.get(n) != nil {
				c = " [contract]"
			}
			fmt.Println(n + c)
		}
	case "verify":
		var keys []string
		if *funcs == "" || *funcs == "all" {
			keys = append(keys, E.CS.Order...)
		} else {
			keys = strings.Split(*funcs, ",")
		}
		bad := 0
		keys = E.expandKeys(keys)
		for _, k := range keys {
			if ct := E.CS.get(k); ct != nil && ct.Trusted {
				fmt.Printf("%-45s TRUSTED (%s)\n", k, ct.TrustWhy)
				continue
			}
			if ct := E.CS.get(k); ct != nil && ct.InlineOnly() {
				fmt.Printf("%-45s INLINED (no contract of its own; verified inside each caller)\n", k)
				continue
			}
			fr := E.verifyFunc(k)
			if fr.Err != nil {
				fmt.Printf("%-45s TOOL-LIMIT %v\n", k, fr.Err)
				bad++
				continue
			}
			var names []string
			for n := range fr.Obs {
				names = append(names, n)
			}
			sort.Strings(names)
			np, nf := 0, 0
			for _, n := range names {
				if fr.Obs[n].Proved {
					np++
				} else {
					nf++
				}
			}
			fmt.Printf("%-45s paths=%d checks=%d obligations=%d proved=%d failed=%d %.1fs\n", k, fr.Paths, fr.Checks, len(names), np, nf, fr.Seconds)
			for _, n := range names {
				ob := fr.Obs[n]
				if !ob.Proved || *verbose {
					st := "proved"
					if !ob.Proved {
						st = "FAILED"
						if ob.Guard {
							st = "VACUOUS"
						}
						bad++
					}
					fmt.Printf("    %-70s %s (%d sub-checks) %v\n", n, st, ob.Subs, ob.BySolver)
					for fi, f := range ob.Fails {
						if fi >= 2 && !*verbose {
							fmt.Printf("        ... %d more\n", len(ob.Fails)-fi)
							break
						}
						fmt.Printf("        path %d: %s [%s] %s\n", f.Path, f.Status, f.Check.Note, f.Detail)
						if *verbose {
							fmt.Printf("        trace: %s\n", fr.PathInfo[f.Path].Trace)
						}
					}
				}
			}
			if *dump != "" {
				os.MkdirAll(*dump, 0o755)
				for i, s := range fr.Scripts {
					os.WriteFile(filepath.Join(*dump, fmt.Sprintf("%s.p%d.smt2", sanitize(k), i)), []byte(s), 0o644)
				}
			}
		}
		if bad > 0 {
			os.RemoveAll(E.WorkDir)
			os.Exit(1)
		}
	case "lemmas":
		bad := 0
		var mods []string
		for n := range E.Spec.Mods {
			mods = append(mods, n)
		}
		sort.Strings(mods)
		for _, mn := range mods {
			m := E.Spec.Mods[mn]
			if *funcs != "" && *funcs != mn {
				continue
			}
			for _, l := range m.Lemmas {
				lr := E.proveLemma(m, l)
				var names []string
				for n := range lr.Obs {
					names = append(names, n)
				}
				sort.Strings(names)
				np := 0
				for _, n := range names {
					if lr.Obs[n].Proved {
						np++
					}
				}
				fmt.Printf("%-60s cases=%d proved=%d %.1fs\n", lr.Name, len(names), np, lr.Seconds)
				for _, n := range names {
					if !lr.Obs[n].Proved {
						bad++
						fmt.Printf("    %s FAILED %s\n", n, lr.Obs[n].Fails[0].Detail)
						if *dump != "" {
							os.MkdirAll(*dump, 0o755)
							os.WriteFile(filepath.Join(*dump, sanitize(n)+".smt2"), []byte(lr.Scripts[n]), 0o644)
						}
					}
				}
			}
		}
		if bad > 0 {
			os.RemoveAll(E.WorkDir)
			os.Exit(1)
		}
	case "baseline":
		rc := E.writeBaseline()
		os.RemoveAll(E.WorkDir)
		os.Exit(rc)
	case "check":
		rc := E.checkProperty(*prop, *tier)
		os.RemoveAll(E.WorkDir)
		os.Exit(rc)
	default:
		fmt.Fprintln(os.Stderr, "unknown command", cmd)
		os.Exit(2)
	}
}
