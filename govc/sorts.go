package main

import (
	"crypto/sha1"
	"fmt"
	"go/types"
	"sort"
	"strings"
)

// ---------------------------------------------------------------------------
// Go types -> SMT sorts.
//
//   int kinds, rune, byte, TokenKind ...   Int      (mathematical; assumption A3)
//   bool                                    Bool
//   string, []byte                          Str      (uninterpreted sequence of Int)
//   []T                                     Seq_<S>  (uninterpreted sequence sort)
//   struct used by value (Span, Token)      record datatype <Name>
//   *T with T an AST node struct, and the
//   interfaces Node/Expr/Statement/...      Node     (one algebraic datatype, generated)
//   error, *parseError, *compileError,
//   notFoundError, opaqueError              Err      (algebraic datatype, generated)
//   *T for any other struct                 Int      (reference into per-field heaps)
//   map[K]V                                 Int      (reference; dom/val heaps)
//   func                                    Fn
//   any other interface                     Any
// ---------------------------------------------------------------------------

type FieldInfo struct {
	Name string
	Type types.Type
	Sort string
}

type StructInfo struct {
	Named     *types.Named
	Name      string // constructor base name: mk_<Name>, selectors <Name>.<field>
	Sum       string // "" = own record sort; otherwise member of this sum sort
	PtrRegime bool   // the pointer *T is the value (immutable tree regime)
	Tag       int
	Fields    []FieldInfo
}

func (si *StructInfo) sortName() string {
	if si.Sum != "" {
		return si.Sum
	}
	return si.Name
}

type Universe struct {
	P        *Program
	structs  map[*types.Named]*StructInfo
	byName   map[string]*StructInfo
	seqs     map[string]string // seq sort -> elem sort
	nodeIf   *types.Interface
	nodeTys  []*StructInfo // members of Node, by tag
	errTys   []*StructInfo
	lits     map[string]string // string literal -> constant name
	litOrder []string
	extraSorts map[string]bool
	fnConsts   map[string]bool
	specSeqs   map[string]bool
	outStrAxioms bool
}

func newUniverse(P *Program) *Universe {
	U := &Universe{P: P, structs: map[*types.Named]*StructInfo{}, byName: map[string]*StructInfo{},
		seqs: map[string]string{}, lits: map[string]string{}, extraSorts: map[string]bool{}}
	pp := P.SSA["parser"].Pkg
	U.nodeIf = pp.Scope().Lookup("Node").Type().Underlying().(*types.Interface)
	// Node members: every struct type of package parser whose pointer implements Node.
	names := pp.Scope().Names()
	sort.Strings(names)
	tag := 1
	for _, n := range names {
		tn, ok := pp.Scope().Lookup(n).(*types.TypeName)
		if !ok {
			continue
		}
		nt, ok := tn.Type().(*types.Named)
		if !ok {
			continue
		}
		if _, ok := nt.Underlying().(*types.Struct); !ok {
			continue
		}
		if types.Implements(types.NewPointer(nt), U.nodeIf) {
			si := &StructInfo{Named: nt, Name: n, Sum: "Node", PtrRegime: true, Tag: tag}
			tag++
			U.structs[nt] = si
			U.byName[n] = si
			U.nodeTys = append(U.nodeTys, si)
		}
	}
	// Err members.
	addErr := func(pkg *types.Package, name string, ptr bool) {
		o := pkg.Scope().Lookup(name)
		if o == nil {
			return
		}
		nt := o.Type().(*types.Named)
		si := &StructInfo{Named: nt, Name: name, Sum: "Err", PtrRegime: ptr, Tag: tag}
		tag++
		U.structs[nt] = si
		U.byName[name] = si
		U.errTys = append(U.errTys, si)
	}
	addErr(pp, "parseError", true)
	addErr(pp, "notFoundError", false)
	addErr(pp, "opaqueError", false)
	if q := P.SSA["pql"]; q != nil {
		addErr(q.Pkg, "compileError", true)
	}
	// Fill fields after all sum members are known (fields refer to each other).
	for _, si := range U.structs {
		U.fillFields(si)
	}
	for _, n := range []string{"Span", "Token"} {
		if o := pp.Scope().Lookup(n); o != nil {
			U.structInfo(o.Type().(*types.Named))
		}
	}
	U.seqs["Seq_Token"] = "Token"
	U.seqs["Str"] = "Int"
	U.seqs["Seq_Err"] = "Err"
	U.seqs["Seq_Node"] = "Node"
	U.seqs["Seq_Span"] = "Span"
	U.seqs["Seq_Int"] = "Int"
	U.seqs["Seq_Str"] = "Str"
	return U
}

func (U *Universe) fillFields(si *StructInfo) {
	st := si.Named.Underlying().(*types.Struct)
	si.Fields = nil
	if si.Name == "strings.Builder" {
		// a builder is a heap object with one ghost field: its content
		si.Fields = []FieldInfo{{Name: "out", Type: nil, Sort: "Out"}}
		return
	}
	for i := 0; i < st.NumFields(); i++ {
		f := st.Field(i)
		si.Fields = append(si.Fields, FieldInfo{Name: f.Name(), Type: f.Type(), Sort: U.sortOf(f.Type())})
	}
}

func structName(nt *types.Named) string {
	o := nt.Obj()
	if o.Pkg() == nil {
		return o.Name()
	}
	if strings.HasPrefix(o.Pkg().Path(), modPath) {
		return o.Name()
	}
	return o.Pkg().Name() + "." + o.Name()
}

func (U *Universe) structInfo(nt *types.Named) *StructInfo {
	nt = nt.Origin()
	if si, ok := U.structs[nt]; ok {
		return si
	}
	si := &StructInfo{Named: nt, Name: structName(nt)}
	if old, ok := U.byName[si.Name]; ok && old.Named != nt {
		si.Name = nt.Obj().Pkg().Name() + "." + si.Name
	}
	U.structs[nt] = si
	U.byName[si.Name] = si
	U.fillFields(si)
	return si
}

func isErrorType(t types.Type) bool {
	n, ok := t.(*types.Named)
	return ok && n.Obj().Pkg() == nil && n.Obj().Name() == "error"
}

// isMultiUnwrapper: an interface whose only method is Unwrap() []error
func isMultiUnwrapper(it *types.Interface) bool {
	if it.NumMethods() != 1 || it.Method(0).Name() != "Unwrap" {
		return false
	}
	sig := it.Method(0).Type().(*types.Signature)
	if sig.Params().Len() != 0 || sig.Results().Len() != 1 {
		return false
	}
	sl, ok := sig.Results().At(0).Type().(*types.Slice)
	return ok && isErrorType(sl.Elem())
}

func (U *Universe) isNodeIface(it *types.Interface) bool {
	for i := 0; i < it.NumMethods(); i++ {
		m := it.Method(i)
		if m.Name() == "Span" {
			sig := m.Type().(*types.Signature)
			if sig.Results().Len() == 1 {
				if n, ok := sig.Results().At(0).Type().(*types.Named); ok && n.Obj().Name() == "Span" {
					return true
				}
			}
		}
	}
	return false
}

func (U *Universe) sortOf(t types.Type) string {
	switch t := t.(type) {
	case *types.Basic:
		switch {
		case t.Info()&types.IsBoolean != 0:
			return "Bool"
		case t.Info()&types.IsInteger != 0:
			return "Int"
		case t.Info()&types.IsString != 0:
			return "Str"
		case t.Info()&types.IsFloat != 0:
			return "Real"
		case t.Kind() == types.UntypedNil:
			return "Nil"
		case t.Kind() == types.UnsafePointer:
			return "Int"
		}
	case *types.Named:
		if isErrorType(t) {
			return "Err"
		}
		switch u := t.Underlying().(type) {
		case *types.Struct:
			return U.structInfo(t).sortName()
		case *types.Interface:
			if U.isNodeIface(u) {
				return "Node"
			}
			if isMultiUnwrapper(u) {
				// interface{ Unwrap() []error }: of the error values modelled, only joined errors implement it
				return "Err"
			}
			U.extraSorts["Any"] = true
			return "Any"
		default:
			return U.sortOf(u)
		}
	case *types.Alias:
		return U.sortOf(types.Unalias(t))
	case *types.Pointer:
		if nt, ok := t.Elem().(*types.Named); ok {
			if _, ok := nt.Underlying().(*types.Struct); ok {
				si := U.structInfo(nt)
				if si.PtrRegime {
					return si.Sum
				}
			}
		}
		return "Int"
	case *types.Slice:
		es := U.sortOf(t.Elem())
		if b, ok := t.Elem().Underlying().(*types.Basic); ok && (b.Kind() == types.Byte || b.Kind() == types.Uint8) {
			return "Str"
		}
		s := "Seq_" + es
		U.seqs[s] = es
		return s
	case *types.Map:
		return "Int"
	case *types.Signature:
		U.extraSorts["Fn"] = true
		return "Fn"
	case *types.Interface:
		if U.isNodeIface(t) {
			return "Node"
		}
		U.extraSorts["Any"] = true
		return "Any"
	case *types.Struct:
		if t.NumFields() == 0 {
			return "Unit"
		}
		panic("anonymous struct value: " + t.String())
	case *types.Tuple:
		return "Tuple"
	case *types.Array:
		return "Array"
	case *types.Chan:
		return "Int"
	}
	panic(fmt.Sprintf("sortOf: unsupported type %T %v", t, t))
}

// zero returns the SMT term of the zero value of a Go type.
func (U *Universe) zero(t types.Type) string {
	if t == nil {
		return "OEmpty"
	}
	s := U.sortOf(t)
	switch s {
	case "Int":
		return "0"
	case "Bool":
		return "false"
	case "Real":
		return "0.0"
	case "Str":
		return "Str.empty"
	case "Node":
		if pt, ok := t.Underlying().(*types.Pointer); ok {
			si := U.structInfo(pt.Elem().(*types.Named))
			return fmt.Sprintf("(nilp %d)", si.Tag)
		}
		if nt, ok := t.(*types.Named); ok {
			if _, ok := nt.Underlying().(*types.Struct); ok {
				return U.zeroStruct(U.structInfo(nt))
			}
		}
		return "nilN"
	case "Err":
		if pt, ok := t.Underlying().(*types.Pointer); ok {
			si := U.structInfo(pt.Elem().(*types.Named))
			return fmt.Sprintf("(nilpE %d)", si.Tag)
		}
		if nt, ok := t.(*types.Named); ok {
			if _, ok := nt.Underlying().(*types.Struct); ok {
				return U.zeroStruct(U.structInfo(nt))
			}
		}
		return "ErrNil"
	case "Unit":
		return "unit"
	case "Fn":
		return "Fn.nil"
	case "Any":
		return "Any.nil"
	}
	if strings.HasPrefix(s, "Seq_") {
		return s + ".empty"
	}
	if nt, ok := t.(*types.Named); ok {
		if _, ok := nt.Underlying().(*types.Struct); ok {
			return U.zeroStruct(U.structInfo(nt))
		}
	}
	panic("zero: " + t.String())
}

func (U *Universe) zeroStruct(si *StructInfo) string {
	if len(si.Fields) == 0 {
		return "mk_" + si.Name
	}
	var b strings.Builder
	b.WriteString("(mk_" + si.Name)
	for _, f := range si.Fields {
		b.WriteString(" " + U.zero(f.Type))
	}
	b.WriteString(")")
	return b.String()
}

// lit returns the constant naming a string literal.
func (U *Universe) lit(s string) string {
	if s == "" {
		return "Str.empty"
	}
	if c, ok := U.lits[s]; ok {
		return c
	}
	c := fmt.Sprintf("lit%x", sha1.Sum([]byte(s)))[:11]
	// readable suffix
	var sb strings.Builder
	for _, r := range s {
		if len(sb.String()) >= 16 {
			break
		}
		if r >= 'a' && r <= 'z' || r >= 'A' && r <= 'Z' || r >= '0' && r <= '9' {
			sb.WriteRune(r)
		} else {
			sb.WriteByte('_')
		}
	}
	c = c + "_" + sb.String()
	U.lits[s] = c
	U.litOrder = append(U.litOrder, s)
	return c
}

// typeOK returns the shallow typing fact Go's type system guarantees for a
// Node/Err-sorted term of static type t ("" if none).
// typeOKEager: the part of typeOK that is cheap enough to assume at every load
// (pointer types: two alternatives). Interface typing (a disjunction over all
// implementing types) is assumed lazily, at type assertions / type switches.
func (U *Universe) typeOKEager(term string, t types.Type) string {
	if _, ok := t.Underlying().(*types.Interface); ok {
		return ""
	}
	return U.typeOK(term, t)
}

func (U *Universe) typeOK(term string, t types.Type) string {
	if t == nil {
		return ""
	}
	s := U.sortOf(t)
	if s != "Node" && s != "Err" {
		return ""
	}
	nilp := "nilp"
	if s == "Err" {
		nilp = "nilpE"
	}
	if pt, ok := t.Underlying().(*types.Pointer); ok {
		si := U.structInfo(pt.Elem().(*types.Named))
		return fmt.Sprintf("(or ((_ is mk_%s) %s) (= %s (%s %d)))", si.Name, term, term, nilp, si.Tag)
	}
	if it, ok := t.Underlying().(*types.Interface); ok && s == "Node" {
		var alts []string
		alts = append(alts, fmt.Sprintf("(= %s nilN)", term))
		for _, si := range U.nodeTys {
			if types.Implements(types.NewPointer(si.Named), it) {
				alts = append(alts, fmt.Sprintf("((_ is mk_%s) %s)", si.Name, term))
				alts = append(alts, fmt.Sprintf("(= %s (nilp %d))", term, si.Tag))
			}
		}
		return "(or " + strings.Join(alts, " ") + ")"
	}
	return ""
}

// ---------------------------------------------------------------------------
// Prelude
// ---------------------------------------------------------------------------

func (U *Universe) prelude() string {
	var b strings.Builder
	// touch all struct field sorts so seq sorts are registered
	for _, si := range U.structs {
		for _, f := range si.Fields {
			_ = f.Sort
		}
	}
	b.WriteString("; ---- sorts\n")
	var seqNames []string
	for s := range U.seqs {
		if U.specSeqs[s] {
			continue
		}
		seqNames = append(seqNames, s)
	}
	sort.Strings(seqNames)
	for _, s := range seqNames {
		fmt.Fprintf(&b, "(declare-sort %s 0)\n", s)
	}
	for _, s := range []string{"Any", "Fn"} {
		fmt.Fprintf(&b, "(declare-sort %s 0)\n(declare-const %s.nil %s)\n", s, s, s)
	}
	b.WriteString("; ---- Out: content of a strings.Builder, newest fragment outermost\n")
	b.WriteString("(declare-datatypes ((Out 0)) (((OEmpty) (OByte (OByte.prev Out) (OByte.b Int)) (OStr (OStr.prev Out) (OStr.s Str)) (ORune (ORune.prev Out) (ORune.r Int)))))\n")
	b.WriteString("(declare-fun Out.str (Out) Str)\n")
	U.outStrAxioms = true
	// records in dependency order
	b.WriteString("; ---- records\n")
	done := map[string]bool{}
	var recs []*StructInfo
	for _, si := range U.structs {
		// struct types of other packages (os.File, ...) are only ever handled through pointers and models
		if si.Sum == "" && !strings.Contains(si.Name, ".") {
			recs = append(recs, si)
		}
	}
	sort.Slice(recs, func(i, j int) bool { return recs[i].Name < recs[j].Name })
	var emit func(si *StructInfo)
	emit = func(si *StructInfo) {
		if done[si.Name] {
			return
		}
		done[si.Name] = true
		for _, f := range si.Fields {
			if d, ok := U.byName[f.Sort]; ok && d.Sum == "" {
				emit(d)
			}
		}
		fmt.Fprintf(&b, "(declare-datatypes ((%s 0)) (((mk_%s", si.Name, si.Name)
		for _, f := range si.Fields {
			fmt.Fprintf(&b, " (%s.%s %s)", si.Name, f.Name, f.Sort)
		}
		b.WriteString("))))\n")
	}
	// records that do not mention Node/Err go first (Node and Err contain Span, Token ...);
	// records of heap structs that hold nodes or errors come after those datatypes
	var dependsOnSum func(si *StructInfo, seen map[string]bool) bool
	dependsOnSum = func(si *StructInfo, seen map[string]bool) bool {
		if seen[si.Name] {
			return false
		}
		seen[si.Name] = true
		for _, f := range si.Fields {
			if f.Sort == "Node" || f.Sort == "Err" || f.Sort == "Seq_Node" || f.Sort == "Seq_Err" {
				return true
			}
			if d, ok := U.byName[f.Sort]; ok && d.Sum == "" && dependsOnSum(d, seen) {
				return true
			}
			if strings.HasPrefix(f.Sort, "Seq_") {
				if d, ok := U.byName[strings.TrimPrefix(f.Sort, "Seq_")]; ok && d.Sum == "" && dependsOnSum(d, seen) {
					return true
				}
			}
		}
		return false
	}
	var late []*StructInfo
	for _, si := range recs {
		if dependsOnSum(si, map[string]bool{}) {
			late = append(late, si)
			continue
		}
		emit(si)
	}
	// Node
	b.WriteString("; ---- Node (generated from go/types of package parser)\n")
	b.WriteString("(declare-datatypes ((Node 0)) ((\n  (nilN)\n  (nilp (nilp.tag Int))\n")
	for _, si := range U.nodeTys {
		fmt.Fprintf(&b, "  (mk_%s", si.Name)
		for _, f := range si.Fields {
			fmt.Fprintf(&b, " (%s.%s %s)", si.Name, f.Name, f.Sort)
		}
		b.WriteString(")\n")
	}
	b.WriteString(")))\n")
	b.WriteString("; ---- Err\n")
	b.WriteString("(declare-datatypes ((Err 0)) ((\n  (ErrNil)\n  (nilpE (nilpE.tag Int))\n  (EJoin (EJoin.list Seq_Err))\n  (EOther (EOther.id Int))\n")
	for _, si := range U.errTys {
		fmt.Fprintf(&b, "  (mk_%s", si.Name)
		for _, f := range si.Fields {
			fmt.Fprintf(&b, " (%s.%s %s)", si.Name, f.Name, f.Sort)
		}
		b.WriteString(")\n")
	}
	b.WriteString(")))\n")
	for _, si := range late {
		emit(si)
	}
	b.WriteString("(declare-datatypes ((Unit 0)) (((unit))))\n")
	b.WriteString("(declare-datatypes ((Fuel 0)) (((FZ) (FS (FS.p Fuel)))))\n")
	b.WriteString("; ---- sequences\n")
	for _, s := range seqNames {
		e := U.seqs[s]
		b.WriteString(seqAxioms(s, e))
	}
	b.WriteString(strExtra)
	return b.String()
}

func seqAxioms(S, E string) string {
	// Str holds bytes: what is stored is the value modulo 256 (Go's byte conversion),
	// which keeps the range axiom for Str.nth consistent.
	st := "x"
	extra := ""
	if S == "Str" {
		st = "(mod x 256)"
		extra = "(assert (forall ((s Str) (i Int)) (! (=> (and (<= 0 i) (< i (Str.len s))) (and (<= 0 (Str.nth s i)) (<= (Str.nth s i) 255))) :pattern ((Str.nth s i)))))\n"
	}
	r := strings.NewReplacer("$S", S, "$E", E, "$X", st)
	return r.Replace(`(declare-fun $S.len ($S) Int)
(declare-fun $S.nth ($S Int) $E)
(declare-const $S.empty $S)
(declare-fun $S.snoc ($S $E) $S)
(declare-fun $S.slice ($S Int Int) $S)
(declare-fun $S.upd ($S Int $E) $S)
(declare-fun $S.cat ($S $S) $S)
(assert (forall ((a $S) (b $S)) (! (= ($S.len ($S.cat a b)) (+ ($S.len a) ($S.len b))) :pattern (($S.cat a b)))))
(assert (forall ((a $S) (b $S) (i Int)) (! (= ($S.nth ($S.cat a b) i) (ite (< i ($S.len a)) ($S.nth a i) ($S.nth b (- i ($S.len a))))) :pattern (($S.nth ($S.cat a b) i)))))
(assert (forall ((s $S)) (! (>= ($S.len s) 0) :pattern (($S.len s)))))
(assert (= ($S.len $S.empty) 0))
(assert (forall ((s $S)) (! (=> (= ($S.len s) 0) (= s $S.empty)) :pattern (($S.len s)))))
(assert (forall ((s $S) (x $E)) (! (= ($S.len ($S.snoc s x)) (+ ($S.len s) 1)) :pattern (($S.snoc s x)))))
(assert (forall ((s $S) (x $E) (i Int)) (! (= ($S.nth ($S.snoc s x) i) (ite (= i ($S.len s)) $X ($S.nth s i))) :pattern (($S.nth ($S.snoc s x) i)))))
(assert (forall ((s $S) (a Int) (b Int)) (! (=> (and (<= 0 a) (<= a b) (<= b ($S.len s))) (= ($S.len ($S.slice s a b)) (- b a))) :pattern (($S.slice s a b)))))
(assert (forall ((s $S) (a Int) (b Int) (i Int)) (! (=> (and (<= 0 a) (<= a b) (<= b ($S.len s)) (<= 0 i) (< i (- b a))) (= ($S.nth ($S.slice s a b) i) ($S.nth s (+ a i)))) :pattern (($S.nth ($S.slice s a b) i)))))
(assert (forall ((s $S)) (! (= ($S.slice s 0 ($S.len s)) s) :pattern (($S.slice s 0 ($S.len s))))))
(assert (forall ((s $S) (x $E)) (! (= ($S.slice ($S.snoc s x) 0 ($S.len s)) s) :pattern (($S.slice ($S.snoc s x) 0 ($S.len s))))))
(assert (forall ((s $S) (x $E) (k Int)) (! (=> (and (<= 0 k) (<= k ($S.len s))) (= ($S.slice ($S.snoc s x) 0 k) ($S.slice s 0 k))) :pattern (($S.slice ($S.snoc s x) 0 k)))))
(assert (forall ((s $S) (a Int) (b Int) (c Int) (d Int)) (! (=> (and (<= 0 a) (<= a b) (<= b ($S.len s)) (<= 0 c) (<= c d) (<= d (- b a))) (= ($S.slice ($S.slice s a b) c d) ($S.slice s (+ a c) (+ a d)))) :pattern (($S.slice ($S.slice s a b) c d)))))
(assert (forall ((s $S) (i Int) (x $E)) (! (= ($S.len ($S.upd s i x)) ($S.len s)) :pattern (($S.upd s i x)))))
(assert (forall ((s $S) (i Int) (x $E) (j Int)) (! (=> (and (<= 0 i) (< i ($S.len s))) (= ($S.nth ($S.upd s i x) j) (ite (= i j) $X ($S.nth s j)))) :pattern (($S.nth ($S.upd s i x) j)))))
`) + extra
}

const strExtra = `; the text denoted by builder content
(assert (= (Out.str OEmpty) Str.empty))
(assert (forall ((o Out) (b Int)) (! (= (Str.len (Out.str (OByte o b))) (+ (Str.len (Out.str o)) 1)) :pattern ((Out.str (OByte o b))))))
(assert (forall ((o Out) (s Str)) (! (= (Out.str (OStr o s)) (Str.cat (Out.str o) s)) :pattern ((Out.str (OStr o s))))))
; sequence-theory facts about concatenation and slices (true of finite sequences with extensional equality)
(assert (forall ((s Str) (a Int) (b Int) (c Int)) (! (=> (and (<= 0 a) (<= a b) (<= b c) (<= c (Str.len s))) (= (Str.cat (Str.slice s a b) (Str.slice s b c)) (Str.slice s a c))) :pattern ((Str.cat (Str.slice s a b) (Str.slice s b c))))))
(assert (forall ((s Str) (a Int) (b Int) (t Str)) (! (=> (and (<= 0 a) (<= a b) (< b (Str.len s)) (= (Str.len t) 1) (= (Str.nth t 0) (Str.nth s b))) (= (Str.cat (Str.slice s a b) t) (Str.slice s a (+ b 1)))) :pattern ((Str.cat (Str.slice s a b) t)))))
(assert (forall ((a Str)) (! (= (Str.cat a Str.empty) a) :pattern ((Str.cat a Str.empty)))))
(assert (forall ((a Str)) (! (= (Str.cat Str.empty a) a) :pattern ((Str.cat Str.empty a)))))
`

func (U *Universe) fnConst(key string) string {
	c := "fn." + sanitize(key)
	if U.fnConsts == nil {
		U.fnConsts = map[string]bool{}
	}
	U.fnConsts[c] = true
	return c
}

// litDeclsFor: the declarations of only those string literals whose constants occur in the given texts, so that
// a function's verification conditions do not depend on which other functions were verified in the same process.
func (U *Universe) litDeclsFor(texts ...string) string {
	return U.litDeclsFiltered(func(c string) bool {
		for _, t := range texts {
			if strings.Contains(t, c) {
				return true
			}
		}
		return false
	})
}

func (U *Universe) litDecls() string { return U.litDeclsFiltered(func(string) bool { return true }) }

func (U *Universe) litDeclsFiltered(keep func(string) bool) string {
	var b strings.Builder
	var fns []string
	for c := range U.fnConsts {
		fns = append(fns, c)
	}
	sort.Strings(fns)
	for _, c := range fns {
		fmt.Fprintf(&b, "(declare-const %s Fn)\n", c)
	}
	if len(fns) > 1 {
		fmt.Fprintf(&b, "(assert (distinct Fn.nil %s))\n", strings.Join(fns, " "))
	}
	order := append([]string(nil), U.litOrder...)
	sort.Slice(order, func(i, j int) bool { return U.lits[order[i]] < U.lits[order[j]] })
	for _, s := range order {
		c := U.lits[s]
		if !keep(c) {
			continue
		}
		fmt.Fprintf(&b, "(declare-const %s Str)\n(assert (= (Str.len %s) %d))\n", c, c, len(s))
		for i := 0; i < len(s); i++ {
			fmt.Fprintf(&b, "(assert (= (Str.nth %s %d) %d))\n", c, i, s[i])
		}
	}
	return b.String()
}
