package main

import (
	"fmt"
	"go/ast"
	"go/constant"
	"go/parser"
	"go/token"
	"go/types"
	"strconv"
	"strings"
)

// Contract expressions are Go expressions (parsed with go/parser) over the
// function's parameters, results and named locals, with a few built-ins:
//
//	old(e)  len(x)  forall(i, lo, hi, body)  exists(i, lo, hi, body)
//	implies(a, b)   a ==> b   ite(c, a, b)   min  max
//	isnil(x)  typeis(x, "Ident")   and every function declared in the spec modules.
type Env struct {
	x      *Exec
	st     *State
	vars   map[string]Val
	heaps  map[string]string // current heaps (nil = st.heaps)
	oldH   map[string]string // heaps for old()
	pkg    *types.Package
	bound  map[string]Val
	res    []Val
	params map[string]Val // entry values of the parameters: old(x) for a bare name x
}

func rewriteImplies(s string) string {
	// a ==> b  (lowest precedence, right associative) -> implies(a, b)
	depth := 0
	inStr := byte(0)
	for i := 0; i+2 < len(s); i++ {
		c := s[i]
		if inStr != 0 {
			if c == '\\' {
				i++
			} else if c == inStr {
				inStr = 0
			}
			continue
		}
		switch c {
		case '"', '\'', '`':
			inStr = c
		case '(', '[':
			depth++
		case ')', ']':
			depth--
		case '=':
			if depth == 0 && s[i:i+3] == "==>" {
				return "implies(" + rewriteImplies(s[:i]) + ", " + rewriteImplies(s[i+3:]) + ")"
			}
		}
	}
	// also rewrite inside parentheses / call arguments
	var out strings.Builder
	i := 0
	for i < len(s) {
		c := s[i]
		if c == '(' {
			// find matching paren
			d := 0
			j := i
			q := byte(0)
			for ; j < len(s); j++ {
				cj := s[j]
				if q != 0 {
					if cj == '\\' {
						j++
					} else if cj == q {
						q = 0
					}
					continue
				}
				if cj == '"' || cj == '\'' || cj == '`' {
					q = cj
				} else if cj == '(' {
					d++
				} else if cj == ')' {
					d--
					if d == 0 {
						break
					}
				}
			}
			if j >= len(s) {
				out.WriteString(s[i:])
				break
			}
			inner := s[i+1 : j]
			// split on top-level commas so each argument is rewritten separately
			parts := splitTopCommas(inner)
			for k := range parts {
				parts[k] = rewriteImplies(parts[k])
			}
			out.WriteString("(" + strings.Join(parts, ",") + ")")
			i = j + 1
			continue
		}
		if c == '"' || c == '\'' || c == '`' {
			j := i + 1
			for j < len(s) && s[j] != c {
				if s[j] == '\\' {
					j++
				}
				j++
			}
			if j >= len(s) {
				j = len(s) - 1
			}
			out.WriteString(s[i : j+1])
			i = j + 1
			continue
		}
		out.WriteByte(c)
		i++
	}
	return out.String()
}

func splitTopCommas(s string) []string {
	var parts []string
	d := 0
	q := byte(0)
	last := 0
	for i := 0; i < len(s); i++ {
		c := s[i]
		if q != 0 {
			if c == '\\' {
				i++
			} else if c == q {
				q = 0
			}
			continue
		}
		switch c {
		case '"', '\'', '`':
			q = c
		case '(', '[':
			d++
		case ')', ']':
			d--
		case ',':
			if d == 0 {
				parts = append(parts, s[last:i])
				last = i + 1
			}
		}
	}
	parts = append(parts, s[last:])
	return parts
}

func (ev *Env) evalClause(c Clause) string {
	src := rewriteImplies(c.Src)
	e, err := parser.ParseExpr(src)
	if err != nil {
		limitf("%s:%d: cannot parse contract expression %q: %v", c.File, c.Line, src, err)
	}
	defer func() {
		if r := recover(); r != nil {
			if tl, ok := r.(toolLimit); ok {
				panic(toolLimit{fmt.Sprintf("%s:%d: %s", c.File, c.Line, tl.msg)})
			}
			panic(r)
		}
	}()
	v := ev.ev(e)
	if v.S != "Bool" {
		limitf("clause is not boolean: %s (sort %s)", c.Src, v.S)
	}
	return v.T
}

func (ev *Env) evalTerms(c Clause) []string {
	src := rewriteImplies(c.Src)
	var out []string
	for _, part := range splitTopCommas(src) {
		e, err := parser.ParseExpr(part)
		if err != nil {
			limitf("%s:%d: cannot parse %q: %v", c.File, c.Line, part, err)
		}
		out = append(out, ev.ev(e).T)
	}
	return out
}

func (ev *Env) heap(name, valSort string, old bool) string {
	if old && ev.oldH != nil {
		if t, ok := ev.oldH[name]; ok {
			return t
		}
		// heap untouched so far: same as current/initial
	}
	if ev.heaps != nil && !old {
		if t, ok := ev.heaps[name]; ok {
			return t
		}
		// the heap had not been touched when the snapshot was taken: its initial version
		ev.st.heap(name, valSort)
		return name + "@0"
	}
	if old {
		// not in snapshot: it did not exist at entry => its initial version
		if _, ok := ev.st.heaps[name]; !ok {
			return ev.st.heap(name, valSort)
		}
		// find version @0
		return name + "@0"
	}
	return ev.st.heap(name, valSort)
}

type evCtx struct{ old bool }

func (ev *Env) ev(e ast.Expr) Val { return ev.evo(e, false) }

func (ev *Env) evo(e ast.Expr, old bool) Val {
	U := ev.x.U()
	switch e := e.(type) {
	case *ast.ParenExpr:
		return ev.evo(e.X, old)
	case *ast.BasicLit:
		switch e.Kind {
		case token.INT:
			return Val{S: "Int", T: e.Value}
		case token.CHAR:
			r, _, _, err := strconv.UnquoteChar(e.Value[1:len(e.Value)-1], '\'')
			if err != nil {
				limitf("bad char literal %s", e.Value)
			}
			return Val{S: "Int", T: strconv.Itoa(int(r))}
		case token.STRING:
			s, err := strconv.Unquote(e.Value)
			if err != nil {
				limitf("bad string literal")
			}
			return Val{S: "Str", T: U.lit(s)}
		}
	case *ast.Ident:
		if old && ev.params != nil {
			if v, ok := ev.params[e.Name]; ok {
				if _, isBound := ev.bound[e.Name]; !isBound {
					return v
				}
			}
		}
		return ev.ident(e.Name, old)
	case *ast.UnaryExpr:
		v := ev.evo(e.X, old)
		switch e.Op {
		case token.NOT:
			return Val{S: "Bool", T: "(not " + v.T + ")"}
		case token.SUB:
			return Val{S: v.S, T: "(- " + v.T + ")"}
		}
	case *ast.BinaryExpr:
		return ev.binary(e, old)
	case *ast.SelectorExpr:
		// <Sort>.empty
		if id, ok := e.X.(*ast.Ident); ok && e.Sel.Name == "empty" {
			if _, isSeq := U.seqs[id.Name]; isSeq {
				return Val{S: id.Name, T: id.Name + ".empty"}
			}
		}
		// package-qualified constant?
		if id, ok := e.X.(*ast.Ident); ok {
			if _, isVar := ev.lookupVar(id.Name); !isVar {
				if pk := ev.findPkg(id.Name); pk != nil {
					return ev.pkgObject(pk, e.Sel.Name)
				}
			}
		}
		base := ev.evo(e.X, old)
		return ev.field(base, e.Sel.Name, old)
	case *ast.IndexExpr:
		b := ev.evo(e.X, old)
		i := ev.evo(e.Index, old)
		if strings.HasPrefix(b.S, "(Array ") {
			// (Array K V): select; V is the last sort of the array sort
			inner := strings.TrimSuffix(strings.TrimPrefix(b.S, "(Array "), ")")
			es := inner[strings.Index(inner, " ")+1:]
			if strings.HasPrefix(inner, "(") {
				// key sort is itself compound: find its closing parenthesis
				d := 0
				for k := 0; k < len(inner); k++ {
					if inner[k] == '(' {
						d++
					} else if inner[k] == ')' {
						d--
						if d == 0 {
							es = strings.TrimSpace(inner[k+1:])
							break
						}
					}
				}
			}
			return Val{S: es, T: fmt.Sprintf("(select %s %s)", b.T, i.T)}
		}
		if _, ok := U.seqs[b.S]; !ok {
			limitf("index on non-sequence sort %s", b.S)
		}
		r := Val{S: U.seqElem(b.S), T: fmt.Sprintf("(%s.nth %s %s)", b.S, b.T, i.T)}
		if b.GT != nil {
			if sl, ok := b.GT.Underlying().(*types.Slice); ok {
				r.GT = sl.Elem()
			}
		}
		return r
	case *ast.SliceExpr:
		b := ev.evo(e.X, old)
		lo := "0"
		if e.Low != nil {
			lo = ev.evo(e.Low, old).T
		}
		hi := fmt.Sprintf("(%s.len %s)", b.S, b.T)
		if e.High != nil {
			hi = ev.evo(e.High, old).T
		}
		return Val{S: b.S, T: fmt.Sprintf("(%s.slice %s %s %s)", b.S, b.T, lo, hi), GT: b.GT}
	case *ast.CallExpr:
		return ev.call(e, old)
	}
	limitf("unsupported contract expression %T", e)
	return Val{}
}

func (ev *Env) lookupVar(name string) (Val, bool) {
	if v, ok := ev.bound[name]; ok {
		return v, true
	}
	if v, ok := ev.vars[name]; ok {
		return v, true
	}
	return Val{}, false
}

func (ev *Env) findPkg(name string) *types.Package {
	for _, p := range ev.x.E.P.Pkgs {
		if p.Name == name && strings.HasPrefix(p.PkgPath, modPath) {
			return p.Types
		}
	}
	return nil
}

func (ev *Env) pkgObject(pk *types.Package, name string) Val {
	o := pk.Scope().Lookup(name)
	if c, ok := o.(*types.Const); ok {
		switch c.Val().Kind() {
		case constant.Int:
			s := c.Val().ExactString()
			if strings.HasPrefix(s, "-") {
				s = "(- " + s[1:] + ")"
			}
			return Val{S: "Int", T: s, GT: c.Type()}
		case constant.String:
			return Val{S: "Str", T: ev.x.U().lit(constant.StringVal(c.Val())), GT: c.Type()}
		case constant.Bool:
			return Val{S: "Bool", T: strconv.FormatBool(constant.BoolVal(c.Val()))}
		}
	}
	limitf("unknown package object %s.%s", pk.Name(), name)
	return Val{}
}

func (ev *Env) ident(name string, old bool) Val {
	switch name {
	case "true", "false":
		return Val{S: "Bool", T: name}
	case "nil":
		return Val{S: "Nil", T: "nil"}
	case "result":
		if len(ev.res) == 0 {
			// not in a postcondition: a local variable that happens to be called result
			if v, ok := ev.lookupVar("result"); ok {
				return ev.varVal(v)
			}
			limitf("result used but function has no results")
		}
		return ev.res[0]
	}
	if strings.HasPrefix(name, "result") {
		if n, err := strconv.Atoi(name[6:]); err == nil && n < len(ev.res) {
			return ev.res[n]
		}
	}
	if v, ok := ev.lookupVar(name); ok {
		return ev.varVal(v)
	}
	if false {
		var v Val
		if v.S == "@addr" {
			// address-taken local: load its current value
			r := ev.x.load(ev.st, v.A, "")
			if r.GT == nil {
				r.GT = v.GT
			}
			return r
		}
		if v.A != nil && v.T == "" {
			// pointer to a local value-regime object: peek its current value
			t := ev.x.term(ev.st, v, false)
			s := ""
			if o := ev.st.objs[v.A.ObjID]; o != nil && o.SI != nil {
				s = o.SI.sortName()
			}
			return Val{S: s, T: t, GT: v.GT}
		}
		return v
	}
	if ev.pkg != nil {
		if o := ev.pkg.Scope().Lookup(name); o != nil {
			if _, ok := o.(*types.Const); ok {
				return ev.pkgObject(ev.pkg, name)
			}
		}
	}
	// nullary spec constant?
	if f, ok := ev.x.E.Spec.Funs[name]; ok && len(f.Args) == 0 {
		return Val{S: f.Ret, T: name}
	}
	limitf("unknown name %q in contract", name)
	return Val{}
}

// varVal: the current value of a named variable (loads address-taken locals, peeks at records under construction)
func (ev *Env) varVal(v Val) Val {
	if v.S == "@addr" {
		r := ev.x.load(ev.st, v.A, "")
		if r.GT == nil {
			r.GT = v.GT
		}
		return r
	}
	if v.A != nil && v.T == "" {
		t := ev.x.term(ev.st, v, false)
		s := ""
		if o := ev.st.objs[v.A.ObjID]; o != nil && o.SI != nil {
			s = o.SI.sortName()
		}
		return Val{S: s, T: t, GT: v.GT}
	}
	return v
}

func (ev *Env) field(base Val, name string, old bool) Val {
	U := ev.x.U()
	if base.GT == nil {
		if si, ok := U.byName[base.S]; ok && si.Sum == "" {
			base.GT = si.Named
		} else {
			limitf("selector .%s on value of unknown Go type (sort %s)", name, base.S)
		}
	}
	t := base.GT
	isPtr := false
	if pt, ok := t.Underlying().(*types.Pointer); ok {
		t = pt.Elem()
		isPtr = true
	}
	nt, ok := t.(*types.Named)
	if !ok {
		limitf("selector .%s on %v", name, base.GT)
	}
	if _, isStruct := nt.Underlying().(*types.Struct); !isStruct {
		limitf("selector .%s on %v, which is not a struct (use a specification function to look inside interface values)", name, base.GT)
	}
	si := U.structInfo(nt)
	idx := -1
	for i, f := range si.Fields {
		if f.Name == name {
			idx = i
		}
	}
	if idx < 0 {
		limitf("no field %s in %s", name, si.Name)
	}
	f := si.Fields[idx]
	if isPtr && si.Sum == "" {
		h := ev.heap(heapName(si, idx), f.Sort, old)
		return Val{S: f.Sort, T: fmt.Sprintf("(select %s %s)", h, base.T), GT: f.Type}
	}
	return Val{S: f.Sort, T: fmt.Sprintf("(%s.%s %s)", si.Name, f.Name, base.T), GT: f.Type}
}

func (ev *Env) binary(e *ast.BinaryExpr, old bool) Val {
	a, b := ev.evo(e.X, old), ev.evo(e.Y, old)
	if a.S == "Nil" && b.S != "Nil" {
		a = ev.nilFor(b)
	}
	if b.S == "Nil" && a.S != "Nil" {
		b = ev.nilFor(a)
	}
	f := func(s, op string) Val { return Val{S: s, T: fmt.Sprintf("(%s %s %s)", op, a.T, b.T)} }
	switch e.Op {
	case token.LAND:
		return f("Bool", "and")
	case token.LOR:
		return f("Bool", "or")
	case token.EQL:
		return f("Bool", "=")
	case token.NEQ:
		return Val{S: "Bool", T: fmt.Sprintf("(not (= %s %s))", a.T, b.T)}
	case token.LSS:
		return f("Bool", "<")
	case token.LEQ:
		return f("Bool", "<=")
	case token.GTR:
		return f("Bool", ">")
	case token.GEQ:
		return f("Bool", ">=")
	case token.ADD:
		if a.S == "Str" {
			return f("Str", "Str.cat")
		}
		return f(a.S, "+")
	case token.SUB:
		return f(a.S, "-")
	case token.MUL:
		return f(a.S, "*")
	case token.QUO:
		return f(a.S, "gdiv")
	case token.REM:
		return f(a.S, "grem")
	}
	limitf("operator %v in contract", e.Op)
	return Val{}
}

func (ev *Env) nilFor(o Val) Val {
	U := ev.x.U()
	if o.GT != nil {
		return Val{S: o.S, T: U.zero(o.GT), GT: o.GT}
	}
	switch o.S {
	case "Int":
		return Val{S: "Int", T: "0"}
	case "Node":
		return Val{S: "Node", T: "nilN"}
	case "Err":
		return Val{S: "Err", T: "ErrNil"}
	}
	if _, ok := U.seqs[o.S]; ok {
		return Val{S: o.S, T: o.S + ".empty"}
	}
	limitf("nil of sort %s", o.S)
	return Val{}
}

func (ev *Env) call(e *ast.CallExpr, old bool) Val {
	U := ev.x.U()
	name := ""
	if id, ok := e.Fun.(*ast.Ident); ok {
		name = id.Name
	} else if se, ok := e.Fun.(*ast.SelectorExpr); ok {
		// Sort-qualified spec function written as Sort.fn(...)
		if id, ok := se.X.(*ast.Ident); ok {
			name = id.Name + "." + se.Sel.Name
		}
	}
	if name == "" {
		limitf("call of non-identifier in contract")
	}
	arg := func(i int) Val { return ev.evo(e.Args[i], old) }
	switch name {
	case "old":
		return ev.evo(e.Args[0], true)
	case "len":
		v := arg(0)
		if _, ok := U.seqs[v.S]; !ok {
			limitf("len of sort %s", v.S)
		}
		return Val{S: "Int", T: fmt.Sprintf("(%s.len %s)", v.S, v.T)}
	case "implies":
		return Val{S: "Bool", T: fmt.Sprintf("(=> %s %s)", arg(0).T, arg(1).T)}
	case "iff":
		return Val{S: "Bool", T: fmt.Sprintf("(= %s %s)", arg(0).T, arg(1).T)}
	case "ite":
		a, b, c := arg(0), arg(1), arg(2)
		return Val{S: b.S, T: fmt.Sprintf("(ite %s %s %s)", a.T, b.T, c.T), GT: b.GT}
	case "min", "max":
		a, b := arg(0), arg(1)
		op := "<="
		if name == "max" {
			op = ">="
		}
		return Val{S: "Int", T: fmt.Sprintf("(ite (%s %s %s) %s %s)", op, a.T, b.T, a.T, b.T)}
	case "forall", "exists":
		id, ok := e.Args[0].(*ast.Ident)
		if !ok || len(e.Args) != 4 {
			limitf("%s(i, lo, hi, body)", name)
		}
		lo, hi := arg(1), arg(2)
		if ev.bound == nil {
			ev.bound = map[string]Val{}
		}
		prev, had := ev.bound[id.Name]
		bn := "q_" + id.Name
		ev.bound[id.Name] = Val{S: "Int", T: bn}
		body := ev.evo(e.Args[3], old)
		if had {
			ev.bound[id.Name] = prev
		} else {
			delete(ev.bound, id.Name)
		}
		if name == "forall" {
			return Val{S: "Bool", T: fmt.Sprintf("(forall ((%s Int)) (=> (and (<= %s %s) (< %s %s)) %s))", bn, lo.T, bn, bn, hi.T, body.T)}
		}
		return Val{S: "Bool", T: fmt.Sprintf("(exists ((%s Int)) (and (<= %s %s) (< %s %s) %s))", bn, lo.T, bn, bn, hi.T, body.T)}
	case "atloop":
		// atloop(k, e): the value e had when loop k was entered on this path
		lit, ok := e.Args[0].(*ast.BasicLit)
		if !ok || len(e.Args) != 2 {
			limitf("atloop(k, e)")
		}
		k, _ := strconv.Atoi(lit.Value)
		snap := ev.st.frames[0].loopSnap[k]
		if snap == nil {
			limitf("atloop(%d, ...): loop %d was not entered on this path", k, k)
		}
		ev2 := *ev
		ev2.heaps = snap.heaps
		ev2.vars = snap.vars
		return ev2.evo(e.Args[1], false)
	case "maparr":
		// maparr("dom") / maparr("val"): the heap arrays of map[string]string objects
		lit, ok := e.Args[0].(*ast.BasicLit)
		if !ok {
			limitf("maparr(\"dom\"|\"val\")")
		}
		which, _ := strconv.Unquote(lit.Value)
		if which == "dom" {
			return Val{S: "(Array Int (Array Str Bool))", T: ev.heap("M.Str.Str.dom", "(Array Str Bool)", old)}
		}
		return Val{S: "(Array Int (Array Str Str))", T: ev.heap("M.Str.Str.val", "(Array Str Str)", old)}
	case "variant":
		// the measure recorded at the head of loop k for the current iteration
		lit, ok := e.Args[0].(*ast.BasicLit)
		if !ok {
			limitf("variant(k)")
		}
		k, _ := strconv.Atoi(lit.Value)
		v := ev.st.frames[0].variant[k]
		if len(v) == 0 {
			limitf("variant(%d): loop %d has no recorded measure on this path", k, k)
		}
		return Val{S: "Int", T: v[0]}
	case "forallS", "existsS":
		id, ok := e.Args[0].(*ast.Ident)
		srt, ok2 := e.Args[1].(*ast.BasicLit)
		if !ok || !ok2 || len(e.Args) != 3 {
			limitf("%s(x, \"Sort\", body)", name)
		}
		sn, _ := strconv.Unquote(srt.Value)
		if ev.bound == nil {
			ev.bound = map[string]Val{}
		}
		prev, had := ev.bound[id.Name]
		bn := "q_" + id.Name
		ev.bound[id.Name] = Val{S: sn, T: bn}
		body := ev.evo(e.Args[2], old)
		if had {
			ev.bound[id.Name] = prev
		} else {
			delete(ev.bound, id.Name)
		}
		q := "forall"
		if name == "existsS" {
			q = "exists"
		}
		return Val{S: "Bool", T: fmt.Sprintf("(%s ((%s %s)) %s)", q, bn, sn, body.T)}
	case "olit":
		// olit(o, "text"): o with the bytes of the literal appended
		o := arg(0)
		lit, ok := e.Args[1].(*ast.BasicLit)
		if !ok || lit.Kind != token.STRING {
			limitf("olit(o, \"text\")")
		}
		txt, _ := strconv.Unquote(lit.Value)
		t := o.T
		for i := 0; i < len(txt); i++ {
			t = fmt.Sprintf("(OByte %s %d)", t, txt[i])
		}
		return Val{S: "Out", T: t}
	case "mapdom", "mapval":
		mv := arg(0)
		mt, ok := mv.GT.Underlying().(*types.Map)
		if mv.GT == nil || !ok {
			limitf("%s of a non-map", name)
		}
		dn, vn := mapHeapNames(U, mt)
		ks, vs := U.sortOf(mt.Key()), U.sortOf(mt.Elem())
		if name == "mapdom" {
			return Val{S: "(Array " + ks + " Bool)", T: fmt.Sprintf("(select %s %s)", ev.heap(dn, "(Array "+ks+" Bool)", old), mv.T)}
		}
		return Val{S: "(Array " + ks + " " + vs + ")", T: fmt.Sprintf("(select %s %s)", ev.heap(vn, "(Array "+ks+" "+vs+")", old), mv.T)}
	case "fieldheap":
		// fieldheap("Struct", "field"): the heap array of a field (current, or at entry under old())
		a0, ok0 := e.Args[0].(*ast.BasicLit)
		a1, ok1 := e.Args[1].(*ast.BasicLit)
		if !ok0 || !ok1 {
			limitf("fieldheap(\"Struct\", \"field\")")
		}
		sn, _ := strconv.Unquote(a0.Value)
		fn, _ := strconv.Unquote(a1.Value)
		si := U.byName[sn]
		if si == nil {
			limitf("fieldheap: unknown struct %s", sn)
		}
		fi := fieldIndex(si, fn)
		if fi < 0 {
			limitf("fieldheap: unknown field %s.%s", sn, fn)
		}
		return Val{S: "(Array Int " + si.Fields[fi].Sort + ")", T: ev.heap(heapName(si, fi), si.Fields[fi].Sort, old)}
	case "isnil":
		v := arg(0)
		n := ev.nilFor(v)
		return Val{S: "Bool", T: fmt.Sprintf("(= %s %s)", v.T, n.T)}
	case "typeis":
		v := arg(0)
		lit, ok := e.Args[1].(*ast.BasicLit)
		if !ok {
			limitf("typeis(x, \"Type\")")
		}
		tn, _ := strconv.Unquote(lit.Value)
		return Val{S: "Bool", T: fmt.Sprintf("((_ is mk_%s) %s)", tn, v.T)}
	case "out":
		// content of a *strings.Builder
		v := arg(0)
		si := U.byName["strings.Builder"]
		if si == nil {
			limitf("strings.Builder not in universe")
		}
		h := ev.heap(heapName(si, 0), "Out", old)
		return Val{S: "Out", T: fmt.Sprintf("(select %s %s)", h, v.T)}
	case "scanidx":
		// number of lines a *bufio.Scanner has delivered so far (ghost)
		v := arg(0)
		return Val{S: "Int", T: fmt.Sprintf("(select %s %s)", ev.heap(scanIdxHeap, "Int", old), v.T)}
	case "scansrc":
		// the reader a *bufio.Scanner scans (ghost)
		v := arg(0)
		return Val{S: "Any", T: fmt.Sprintf("(select %s %s)", ev.heap(scanSrcHeap, "Any", old), v.T)}
	case "wout":
		// everything written so far to an io.Writer that is not a strings.Builder (ghost content)
		v := arg(0)
		h := ev.heap(writerHeap, "Out", old)
		return Val{S: "Out", T: fmt.Sprintf("(select %s (writerId %s))", h, v.T)}
	case "alloc":
		if old {
			return Val{S: "Int", T: ev.st.top().oldAlloc}
		}
		return Val{S: "Int", T: ev.st.alloc}
	}
	f, ok := ev.x.E.Spec.Funs[name]
	if !ok {
		limitf("unknown function %q in contract", name)
	}
	if len(f.Args) != len(e.Args) {
		limitf("%s expects %d arguments", name, len(f.Args))
	}
	var b strings.Builder
	if len(e.Args) == 0 {
		return Val{S: f.Ret, T: name}
	}
	b.WriteString("(" + name)
	for i := range e.Args {
		a := arg(i)
		if a.S == "Nil" {
			a = ev.nilFor(Val{S: f.Args[i]})
		}
		if a.S != f.Args[i] && a.S != "" {
			limitf("argument %d of %s has sort %s, want %s", i, name, a.S, f.Args[i])
		}
		b.WriteString(" " + a.T)
	}
	b.WriteString(")")
	return Val{S: f.Ret, T: b.String()}
}
