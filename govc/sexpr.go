package main

import (
	"fmt"
	"strings"
)

// SX is a tiny s-expression tree used to read spec files.
type SX struct {
	Atom string // non-empty for atoms (string literals keep their quotes)
	List []*SX
	IsL  bool
}

func (s *SX) String() string {
	if !s.IsL {
		return s.Atom
	}
	var b strings.Builder
	b.WriteByte('(')
	for i, c := range s.List {
		if i > 0 {
			b.WriteByte(' ')
		}
		b.WriteString(c.String())
	}
	b.WriteByte(')')
	return b.String()
}

func (s *SX) head() string {
	if s.IsL && len(s.List) > 0 && !s.List[0].IsL {
		return s.List[0].Atom
	}
	return ""
}

func parseSX(src string) ([]*SX, error) {
	var out []*SX
	i := 0
	var parse func() (*SX, error)
	skip := func() {
		for i < len(src) {
			c := src[i]
			if c == ';' {
				for i < len(src) && src[i] != '\n' {
					i++
				}
			} else if c == ' ' || c == '\n' || c == '\t' || c == '\r' {
				i++
			} else {
				break
			}
		}
	}
	parse = func() (*SX, error) {
		skip()
		if i >= len(src) {
			return nil, fmt.Errorf("unexpected EOF")
		}
		c := src[i]
		switch {
		case c == '(':
			i++
			n := &SX{IsL: true}
			for {
				skip()
				if i >= len(src) {
					return nil, fmt.Errorf("unclosed (")
				}
				if src[i] == ')' {
					i++
					return n, nil
				}
				ch, err := parse()
				if err != nil {
					return nil, err
				}
				n.List = append(n.List, ch)
			}
		case c == ')':
			return nil, fmt.Errorf("unexpected ) at %d", i)
		case c == '"':
			j := i + 1
			for j < len(src) {
				if src[j] == '"' {
					if j+1 < len(src) && src[j+1] == '"' {
						j += 2
						continue
					}
					break
				}
				j++
			}
			if j >= len(src) {
				return nil, fmt.Errorf("unterminated string")
			}
			a := src[i : j+1]
			i = j + 1
			return &SX{Atom: a}, nil
		case c == '|':
			j := strings.IndexByte(src[i+1:], '|')
			if j < 0 {
				return nil, fmt.Errorf("unterminated |")
			}
			a := src[i : i+j+2]
			i = i + j + 2
			return &SX{Atom: a}, nil
		default:
			j := i
			for j < len(src) && !strings.ContainsRune(" \n\t\r();", rune(src[j])) {
				j++
			}
			a := src[i:j]
			i = j
			return &SX{Atom: a}, nil
		}
	}
	for {
		skip()
		if i >= len(src) {
			return out, nil
		}
		n, err := parse()
		if err != nil {
			return nil, err
		}
		out = append(out, n)
	}
}

func atom(s string) *SX        { return &SX{Atom: s} }
func list(xs ...*SX) *SX       { return &SX{IsL: true, List: xs} }
func (s *SX) isAtom(a string) bool { return !s.IsL && s.Atom == a }

// subst replaces atoms by terms.
func (s *SX) subst(m map[string]*SX) *SX {
	if !s.IsL {
		if r, ok := m[s.Atom]; ok {
			return r
		}
		return s
	}
	n := &SX{IsL: true, List: make([]*SX, len(s.List))}
	for i, c := range s.List {
		n.List[i] = c.subst(m)
	}
	return n
}
