package main

import (
	"bufio"
	"fmt"
	"os"
	"path/filepath"
	"strconv"
	"strings"
)

// Contracts are `//@` comment lines in comment-only Go files guarded by the
// build tag `verif` inside the repository (contracts_verif.go, one per
// package), keyed by function name and loop ordinal:
//
//	//@ func parser.(*scanner).next
//	//@   use lex
//	//@   requires scOK(s)
//	//@   ensures  @advance: result1 ==> s.pos > old(s.pos)
//	//@   assigns  s.pos, s.last
//	//@   decreases len(s.s) - s.pos
//	//@ loop 1
//	//@   invariant ...
//	//@   decreases ...
//
// A clause may carry a label (`@name:`) which becomes part of the obligation
// name; otherwise clauses are numbered.

type Clause struct {
	Label string
	Src   string
	File  string
	Line  int
}

type LoopContract struct {
	Ord        int
	Invariants []Clause
	Decreases  *Clause
	Unroll     int
}

type Contract struct {
	Func      string
	Uses      []string
	Hide      []string // modules whose definitional axioms are not needed: only declarations and proved lemmas are visible
	Requires  []Clause
	Ensures   []Clause
	Assigns   []string
	HasAssign bool
	Decreases *Clause
	Loops     map[int]*LoopContract
	Trusted   bool   // body not verified: the contract is an assumption (listed in evidence)
	TrustWhy  string
	Inline    bool   // always inline at call sites even though it has a contract (contract still verified)
	NoInline  bool
	Props     []string // properties this function's obligations serve (optional)
	Fresh      bool    // `fresh`: the (first) result is an object allocated by this call
	Ghost      string  // `ghosttrace p`: calls through the function-typed parameter p append their argument to the ghost sequence `trace` and answer vis(trace, arg)
	TableKeys  map[string][]string // `tablekeys g a b c`: the package-level map g has exactly these (string) keys
	Keywords   []string    // `keywords a b c`: exactly these string constants are compared with == in the function body
	Synonyms   [][2]string // `synonyms a=b`: the comparisons with a and with b branch to the same code
	FunctionOf string  // `function f`: the spec function f names the value this (deterministic) function returns
	File      string
	Line      int
}

// InlineOnly: the entry only asks for inlining (no clauses of its own); the body is verified at each call site.
func (c *Contract) InlineOnly() bool {
	return c.Inline && len(c.Requires) == 0 && len(c.Ensures) == 0 && len(c.Loops) == 0 && c.Decreases == nil
}

type ContractSet struct {
	ByFunc map[string]*Contract
	Order  []string
	Files  []string
}

var clauseKeywords = map[string]bool{"func": true, "use": true, "requires": true, "ensures": true,
	"assigns": true, "decreases": true, "loop": true, "invariant": true, "trusted": true,
	"inline": true, "noinline": true, "unroll": true, "props": true, "function": true, "ghosttrace": true, "hide": true, "fresh": true, "keywords": true, "synonyms": true, "tablekeys": true}

func splitLabel(s string) (string, string) {
	s = strings.TrimSpace(s)
	if strings.HasPrefix(s, "@") {
		if i := strings.Index(s, ":"); i > 0 {
			return strings.TrimSpace(s[1:i]), strings.TrimSpace(s[i+1:])
		}
	}
	return "", s
}

func loadContracts(files []string) (*ContractSet, error) {
	cs := &ContractSet{ByFunc: map[string]*Contract{}}
	for _, f := range files {
		if err := cs.loadFile(f); err != nil {
			return nil, err
		}
		cs.Files = append(cs.Files, f)
	}
	return cs, nil
}

func (cs *ContractSet) loadFile(path string) error {
	fh, err := os.Open(path)
	if err != nil {
		return err
	}
	defer fh.Close()
	sc := bufio.NewScanner(fh)
	sc.Buffer(make([]byte, 1<<20), 1<<20)
	var cur *Contract
	var curLoop *LoopContract
	var last *Clause
	ln := 0
	for sc.Scan() {
		ln++
		line := strings.TrimSpace(sc.Text())
		if !strings.HasPrefix(line, "//@") {
			continue
		}
		body := strings.TrimSpace(line[3:])
		if body == "" || strings.HasPrefix(body, "#") {
			continue
		}
		kw := body
		rest := ""
		if i := strings.IndexAny(body, " \t"); i >= 0 {
			kw, rest = body[:i], strings.TrimSpace(body[i+1:])
		}
		if !clauseKeywords[kw] {
			// continuation of the previous clause
			if last == nil {
				return fmt.Errorf("%s:%d: continuation without clause", path, ln)
			}
			last.Src += " " + body
			continue
		}
		if kw != "func" && cur == nil {
			return fmt.Errorf("%s:%d: clause outside func", path, ln)
		}
		switch kw {
		case "func":
			if _, dup := cs.ByFunc[rest]; dup {
				return fmt.Errorf("%s:%d: duplicate contract for %s", path, ln, rest)
			}
			cur = &Contract{Func: rest, Loops: map[int]*LoopContract{}, File: filepath.Base(filepath.Dir(path)) + "/" + filepath.Base(path), Line: ln}
			cs.ByFunc[rest] = cur
			cs.Order = append(cs.Order, rest)
			curLoop = nil
			last = nil
		case "use":
			cur.Uses = append(cur.Uses, strings.Fields(rest)...)
		case "hide":
			cur.Hide = append(cur.Hide, strings.Fields(rest)...)
		case "props":
			cur.Props = append(cur.Props, strings.Fields(rest)...)
		case "fresh":
			cur.Fresh = true
		case "ghosttrace":
			cur.Ghost = rest
		case "tablekeys":
			if fs := strings.Fields(rest); len(fs) >= 1 {
				if cur.TableKeys == nil {
					cur.TableKeys = map[string][]string{}
				}
				cur.TableKeys[fs[0]] = append(cur.TableKeys[fs[0]], fs[1:]...)
			}
		case "keywords":
			cur.Keywords = append(cur.Keywords, strings.Fields(rest)...)
		case "synonyms":
			for _, f := range strings.Fields(rest) {
				if ab := strings.SplitN(f, "=", 2); len(ab) == 2 {
					cur.Synonyms = append(cur.Synonyms, [2]string{ab[0], ab[1]})
				}
			}
		case "function":
			cur.FunctionOf = rest
		case "trusted":
			cur.Trusted = true
			cur.TrustWhy = rest
		case "inline":
			cur.Inline = true
		case "noinline":
			cur.NoInline = true
		case "requires":
			l, s := splitLabel(rest)
			cur.Requires = append(cur.Requires, Clause{Label: l, Src: s, File: cur.File, Line: ln})
			last = &cur.Requires[len(cur.Requires)-1]
		case "ensures":
			l, s := splitLabel(rest)
			cur.Ensures = append(cur.Ensures, Clause{Label: l, Src: s, File: cur.File, Line: ln})
			last = &cur.Ensures[len(cur.Ensures)-1]
		case "assigns":
			cur.HasAssign = true
			for _, a := range strings.Split(rest, ",") {
				a = strings.TrimSpace(a)
				if a != "" && a != "nothing" {
					cur.Assigns = append(cur.Assigns, a)
				}
			}
			last = nil
		case "decreases":
			c := &Clause{Src: rest, File: cur.File, Line: ln}
			if curLoop != nil {
				curLoop.Decreases = c
			} else {
				cur.Decreases = c
			}
			last = c
		case "loop":
			n, err := strconv.Atoi(rest)
			if err != nil {
				return fmt.Errorf("%s:%d: bad loop ordinal", path, ln)
			}
			curLoop = &LoopContract{Ord: n}
			cur.Loops[n] = curLoop
			last = nil
		case "unroll":
			n, err := strconv.Atoi(rest)
			if err != nil || curLoop == nil {
				return fmt.Errorf("%s:%d: bad unroll", path, ln)
			}
			curLoop.Unroll = n
		case "invariant":
			if curLoop == nil {
				return fmt.Errorf("%s:%d: invariant outside loop", path, ln)
			}
			l, s := splitLabel(rest)
			curLoop.Invariants = append(curLoop.Invariants, Clause{Label: l, Src: s, File: cur.File, Line: ln})
			last = &curLoop.Invariants[len(curLoop.Invariants)-1]
		}
	}
	return sc.Err()
}

// get returns the contract of a function; a contract written for a generic
// function applies to each of its instances.
func (cs *ContractSet) get(key string) *Contract {
	if c, ok := cs.ByFunc[key]; ok {
		return c
	}
	if i := strings.Index(key, "["); i > 0 {
		return cs.ByFunc[key[:i]]
	}
	return nil
}
