; Well-formedness of tabular expressions (Appendix D): what Parse establishes on success.
(module-uses consts height spanof exprwf expr plan)

; ---- well-formedness of a tabular expression (what the parser owes, Appendix D)
(declare-fun tabWF (Str Node) Bool)
(declare-fun pipeOpWF (Str Node) Bool)
(declare-fun opsWFL (Str Seq_Node Int) Bool)
(define-fun flavorWF ((fl Node)) Bool
  (or ((_ is nilp) fl) (and ((_ is mk_Ident) fl) (or (= (Ident.Name fl) "inner") (= (Ident.Name fl) "innerunique") (= (Ident.Name fl) "leftouter")))))
(assert (forall ((s Str) (l Seq_Node) (n Int)) (! (= (opsWFL s l n) (ite (<= n 0) true (and (opsWFL s l (- n 1)) (pipeOpWF s (Seq_Node.nth l (- n 1)))))) :pattern ((opsWFL s l n)))))
(assert (forall ((s Str) (e Node)) (! (= (tabWF s e) (and ((_ is mk_TabularExpr) e) (srcWF (TabularExpr.Source e)) (opsWFL s (TabularExpr.Operators e) (Seq_Node.len (TabularExpr.Operators e))))) :pattern ((tabWF s e)))))
(assert (forall ((s Str) (op Node)) (! (= (pipeOpWF s op)
   (or (and ((_ is mk_AsOperator) op) ((_ is mk_Ident) (AsOperator.Name op)))
       (and ((_ is mk_SortOperator) op) (termsWF (SortOperator.Terms op) (Seq_Node.len (SortOperator.Terms op))))
       (and ((_ is mk_TakeOperator) op) (exprWF (TakeOperator.RowCount op)))
       (and ((_ is mk_TopOperator) op) (exprWF (TopOperator.RowCount op)) ((_ is mk_SortTerm) (TopOperator.Col op)) (exprWF (SortTerm.X (TopOperator.Col op))))
       (and ((_ is mk_JoinOperator) op) (tabWF s (JoinOperator.Right op)) (flavorWF (JoinOperator.Flavor op))
            (exprWFL (JoinOperator.Conditions op) (Seq_Node.len (JoinOperator.Conditions op))))
       (and (or ((_ is mk_ProjectOperator) op) ((_ is mk_ExtendOperator) op) ((_ is mk_SummarizeOperator) op)
                ((_ is mk_WhereOperator) op) ((_ is mk_CountOperator) op) ((_ is mk_RenderOperator) op))
            (opWF s op)))) :pattern ((pipeOpWF s op)))))
(lemma opsWFL-nth :induction n (forall ((s Str) (l Seq_Node) (n Int) (i Int)) (! (=> (and (opsWFL s l n) (<= 0 i) (< i n)) (pipeOpWF s (Seq_Node.nth l i))) :pattern ((opsWFL s l n) (Seq_Node.nth l i)))))

; statements the parser may return on success (Appendix D)
(define-fun stmtWF ((s Str) (st Node)) Bool
  (or (and (tabWF s st) (spanSafe st)) (and ((_ is mk_LetStatement) st) ((_ is mk_Ident) (LetStatement.Name st)) (exprWF (LetStatement.X st)))))
(define-fun-rec stmtsWF ((s Str) (l Seq_Node) (n Int)) Bool
  (ite (<= n 0) true (and (stmtsWF s l (- n 1)) (stmtWF s (Seq_Node.nth l (- n 1))))))
(lemma stmtsWF-nth :induction n (forall ((s Str) (l Seq_Node) (n Int) (i Int)) (! (=> (and (stmtsWF s l n) (<= 0 i) (< i n)) (stmtWF s (Seq_Node.nth l i))) :pattern ((stmtsWF s l n) (Seq_Node.nth l i)))))

(lemma stmtsWF-snoc :induction n (forall ((s Str) (l Seq_Node) (x Node) (n Int)) (! (=> (<= n (Seq_Node.len l)) (= (stmtsWF s (Seq_Node.snoc l x) n) (stmtsWF s l n))) :pattern ((stmtsWF s (Seq_Node.snoc l x) n)))))
