; SELECT text of one subquery (DESIGN.md Appendix B, clause order; C02/C04/C05):
;   SELECT list FROM src [WHERE p] [GROUP BY keys] [ORDER BY terms] [LIMIT n]
; (WS sd sv m source src op sort take o) is the builder content after writing the subquery onto o.
(module-uses consts height spanof exprwf expr)

; a single name used as an expression (project column without "= expr")
(define-fun WidentExpr ((sd (Array Str Bool)) (sv (Array Str Str)) (id Node) (o Out)) Out
  (ite (and (not (Ident.Quoted id)) (select sd (Ident.Name id))) (OStr o (select sv (Ident.Name id)))
  (ite (and (not (Ident.Quoted id)) (isBuiltinName (Ident.Name id))) (OStr o (builtinSQL (Ident.Name id)))
       (QI (Ident.Name id) o))))

; column alias: the given name, else the source text of the expression
(define-fun aliasOut ((source Str) (name Node) (x Node) (o Out)) Out
  (ite ((_ is mk_Ident) name) (QI (Ident.Name name) o)
       (QI (Str.slice source (Span.Start (SpanOf x)) (Span.End (SpanOf x))) o)))

(declare-fun WprojCols ((Array Str Bool) (Array Str Str) Int Seq_Node Int Out) Out)
(assert (forall ((sd (Array Str Bool)) (sv (Array Str Str)) (m Int) (l Seq_Node) (i Int) (o Out))
  (! (= (WprojCols sd sv m l i o)
        (ite (>= i (Seq_Node.len l)) o
          (WprojCols sd sv m l (+ i 1)
            (QI (Ident.Name (ProjectColumn.Name (Seq_Node.nth l i)))
              (O+ (ite (= (ProjectColumn.X (Seq_Node.nth l i)) nilN)
                       (WidentExpr sd sv (ProjectColumn.Name (Seq_Node.nth l i)) (ite (> i 0) (O+ o ", ") o))
                       (W sd sv m (ProjectColumn.X (Seq_Node.nth l i)) (ite (> i 0) (O+ o ", ") o)))
                  " AS ")))))
     :pattern ((WprojCols sd sv m l i o)))))

(declare-fun WextCols ((Array Str Bool) (Array Str Str) Int Str Seq_Node Int Out) Out)
(assert (forall ((sd (Array Str Bool)) (sv (Array Str Str)) (m Int) (src Str) (l Seq_Node) (i Int) (o Out))
  (! (= (WextCols sd sv m src l i o)
        (ite (>= i (Seq_Node.len l)) o
          (WextCols sd sv m src l (+ i 1)
            (aliasOut src (ExtendColumn.Name (Seq_Node.nth l i)) (ExtendColumn.X (Seq_Node.nth l i))
              (O+ (W sd sv m (ExtendColumn.X (Seq_Node.nth l i)) (O+ o ", ")) " AS ")))))
     :pattern ((WextCols sd sv m src l i o)))))

; summarize: group keys (first = true: separator only between) and aggregates (separator also after keys)
(declare-fun WsumCols ((Array Str Bool) (Array Str Str) Int Str Seq_Node Bool Int Out) Out)
(assert (forall ((sd (Array Str Bool)) (sv (Array Str Str)) (m Int) (src Str) (l Seq_Node) (lead Bool) (i Int) (o Out))
  (! (= (WsumCols sd sv m src l lead i o)
        (ite (>= i (Seq_Node.len l)) o
          (WsumCols sd sv m src l lead (+ i 1)
            (aliasOut src (SummarizeColumn.Name (Seq_Node.nth l i)) (SummarizeColumn.X (Seq_Node.nth l i))
              (O+ (W sd sv m (SummarizeColumn.X (Seq_Node.nth l i)) (ite (or (> i 0) lead) (O+ o ", ") o)) " AS ")))))
     :pattern ((WsumCols sd sv m src l lead i o)))))
(declare-fun WgroupBy ((Array Str Bool) (Array Str Str) Int Seq_Node Int Out) Out)
(assert (forall ((sd (Array Str Bool)) (sv (Array Str Str)) (m Int) (l Seq_Node) (i Int) (o Out))
  (! (= (WgroupBy sd sv m l i o)
        (ite (>= i (Seq_Node.len l)) o
          (WgroupBy sd sv m l (+ i 1) (W sd sv m (SummarizeColumn.X (Seq_Node.nth l i)) (ite (> i 0) (O+ o ", ") o)))))
     :pattern ((WgroupBy sd sv m l i o)))))

; render: every piece of user text is data: string literal / quoted identifier
(define-fun propText ((v Node)) Str
  (ite ((_ is mk_BasicLit) v) (BasicLit.Value v)
  (ite ((_ is mk_QualifiedIdent) v) (Ident.Name (Seq_Node.nth (QualifiedIdent.Parts v) 0)) Str.empty)))
(declare-fun Wprops (Seq_Node Int Out) Out)
(assert (forall ((l Seq_Node) (i Int) (o Out))
  (! (= (Wprops l i o)
        (ite (>= i (Seq_Node.len l)) o
          (Wprops l (+ i 1)
            (QI (Str.cat "render_prop_" (Ident.Name (RenderProperty.Name (Seq_Node.nth l i))))
              (O+ (QS (propText (RenderProperty.Value (Seq_Node.nth l i))) (O+ o ",\n    ")) " as ")))))
     :pattern ((Wprops l i o)))))

(declare-fun Wterms ((Array Str Bool) (Array Str Str) Int Seq_Node Int Out) Out)
(assert (forall ((sd (Array Str Bool)) (sv (Array Str Str)) (m Int) (l Seq_Node) (i Int) (o Out))
  (! (= (Wterms sd sv m l i o)
        (ite (>= i (Seq_Node.len l)) o
          (Wterms sd sv m l (+ i 1)
            (let ((o1 (W sd sv m (SortTerm.X (Seq_Node.nth l i)) o)))
            (let ((o2 (ite (SortTerm.Asc (Seq_Node.nth l i)) (O+ o1 " ASC") (O+ o1 " DESC"))))
            (let ((o3 (ite (SortTerm.NullsFirst (Seq_Node.nth l i)) (O+ o2 " NULLS FIRST") (O+ o2 " NULLS LAST"))))
              (ite (< i (- (Seq_Node.len l) 1)) (O+ o3 ", ") o3)))))))
     :pattern ((Wterms sd sv m l i o)))))

; the operator part
(define-fun-rec WSop ((sd (Array Str Bool)) (sv (Array Str Str)) (m Int) (source Str) (src Str) (op Node) (o Out)) Out
  (ite (or (= op nilN) ((_ is mk_AsOperator) op)) (OStr (O+ o "SELECT * FROM ") src)
  (ite ((_ is mk_ProjectOperator) op)
       (OStr (O+ (WprojCols sd sv m (ProjectOperator.Cols op) 0 (O+ o "SELECT ")) " FROM ") src)
  (ite ((_ is mk_ExtendOperator) op)
       (OStr (O+ (WextCols sd sv m source (ExtendOperator.Cols op) 0 (O+ o "SELECT *")) " FROM ") src)
  (ite ((_ is mk_SummarizeOperator) op)
       (let ((o1 (OStr (O+ (WsumCols sd sv m source (SummarizeOperator.Cols op) (> (Seq_Node.len (SummarizeOperator.GroupBy op)) 0) 0
                              (WsumCols sd sv m source (SummarizeOperator.GroupBy op) false 0 (O+ o "SELECT "))) " FROM ") src)))
         (ite (> (Seq_Node.len (SummarizeOperator.GroupBy op)) 0)
              (WgroupBy sd sv m (SummarizeOperator.GroupBy op) 0 (O+ o1 " GROUP BY "))
              o1))
  (ite ((_ is mk_WhereOperator) op)
       (W sd sv m (WhereOperator.Predicate op) (O+ (OStr (O+ o "SELECT * FROM ") src) " WHERE "))
  (ite ((_ is mk_CountOperator) op) (OStr (O+ o "SELECT COUNT(*) AS ""count()"" FROM ") src)
  ; render
       (OStr (O+ (Wprops (RenderOperator.Props op) 0
                   (O+ (QS (Ident.Name (RenderOperator.ChartType op)) (O+ o "SELECT *,\n    ")) " as ""render_type"""))
                 "\nFROM ") src))))))))

(define-fun WS ((sd (Array Str Bool)) (sv (Array Str Str)) (m Int) (source Str) (src Str) (op Node) (srt Node) (take Node) (o Out)) Out
  (let ((o1 (WSop sd sv m source src op o)))
  (let ((o2 (ite ((_ is mk_SortOperator) srt) (Wterms sd sv m (SortOperator.Terms srt) 0 (O+ o1 " ORDER BY ")) o1)))
    (ite ((_ is mk_TakeOperator) take) (W sd sv m (TakeOperator.RowCount take) (O+ o2 " LIMIT ")) o2))))

; ---- well-formedness of what splitQueries puts into a subquery (and the parser owes, Appendix D)
(declare-fun projColsWF (Seq_Node Int) Bool)
(assert (forall ((l Seq_Node) (n Int)) (! (= (projColsWF l n) (ite (<= n 0) true (and (projColsWF l (- n 1))
   ((_ is mk_ProjectColumn) (Seq_Node.nth l (- n 1))) ((_ is mk_Ident) (ProjectColumn.Name (Seq_Node.nth l (- n 1))))
   (or (= (ProjectColumn.X (Seq_Node.nth l (- n 1))) nilN) (exprWF (ProjectColumn.X (Seq_Node.nth l (- n 1)))))))) :pattern ((projColsWF l n)))))
(declare-fun extColsWF (Str Seq_Node Int) Bool)
(assert (forall ((s Str) (l Seq_Node) (n Int)) (! (= (extColsWF s l n) (ite (<= n 0) true (and (extColsWF s l (- n 1))
   ((_ is mk_ExtendColumn) (Seq_Node.nth l (- n 1))) (exprWF (ExtendColumn.X (Seq_Node.nth l (- n 1))))
   (or ((_ is mk_Ident) (ExtendColumn.Name (Seq_Node.nth l (- n 1)))) (and ((_ is nilp) (ExtendColumn.Name (Seq_Node.nth l (- n 1)))) (spanSafe (ExtendColumn.X (Seq_Node.nth l (- n 1)))) (spanIn s (ExtendColumn.X (Seq_Node.nth l (- n 1))))))))) :pattern ((extColsWF s l n)))))
(declare-fun sumColsWF (Str Seq_Node Int) Bool)
(assert (forall ((s Str) (l Seq_Node) (n Int)) (! (= (sumColsWF s l n) (ite (<= n 0) true (and (sumColsWF s l (- n 1))
   ((_ is mk_SummarizeColumn) (Seq_Node.nth l (- n 1))) (exprWF (SummarizeColumn.X (Seq_Node.nth l (- n 1))))
   (or ((_ is mk_Ident) (SummarizeColumn.Name (Seq_Node.nth l (- n 1)))) (and ((_ is nilp) (SummarizeColumn.Name (Seq_Node.nth l (- n 1)))) (spanSafe (SummarizeColumn.X (Seq_Node.nth l (- n 1)))) (spanIn s (SummarizeColumn.X (Seq_Node.nth l (- n 1))))))))) :pattern ((sumColsWF s l n)))))
(declare-fun propsWF (Seq_Node Int) Bool)
(assert (forall ((l Seq_Node) (n Int)) (! (= (propsWF l n) (ite (<= n 0) true (and (propsWF l (- n 1))
   ((_ is mk_RenderProperty) (Seq_Node.nth l (- n 1))) ((_ is mk_Ident) (RenderProperty.Name (Seq_Node.nth l (- n 1))))
   (not ((_ is nilp) (RenderProperty.Value (Seq_Node.nth l (- n 1))))) (=> ((_ is mk_QualifiedIdent) (RenderProperty.Value (Seq_Node.nth l (- n 1)))) (exprWF (RenderProperty.Value (Seq_Node.nth l (- n 1)))))))) :pattern ((propsWF l n)))))
(declare-fun termsWF (Seq_Node Int) Bool)
(assert (forall ((l Seq_Node) (n Int)) (! (= (termsWF l n) (ite (<= n 0) true (and (termsWF l (- n 1))
   ((_ is mk_SortTerm) (Seq_Node.nth l (- n 1))) (exprWF (SortTerm.X (Seq_Node.nth l (- n 1))))))) :pattern ((termsWF l n)))))
(define-fun-rec opWF ((source Str) (op Node)) Bool
  (or (= op nilN) ((_ is mk_AsOperator) op) ((_ is mk_CountOperator) op)
      (and ((_ is mk_ProjectOperator) op) (projColsWF (ProjectOperator.Cols op) (Seq_Node.len (ProjectOperator.Cols op))))
      (and ((_ is mk_ExtendOperator) op) (extColsWF source (ExtendOperator.Cols op) (Seq_Node.len (ExtendOperator.Cols op))))
      (and ((_ is mk_SummarizeOperator) op) (sumColsWF source (SummarizeOperator.Cols op) (Seq_Node.len (SummarizeOperator.Cols op)))
           (sumColsWF source (SummarizeOperator.GroupBy op) (Seq_Node.len (SummarizeOperator.GroupBy op))))
      (and ((_ is mk_WhereOperator) op) (exprWF (WhereOperator.Predicate op)))
      (and ((_ is mk_RenderOperator) op) ((_ is mk_Ident) (RenderOperator.ChartType op)) (propsWF (RenderOperator.Props op) (Seq_Node.len (RenderOperator.Props op))))))
(define-fun-rec sortWF ((srt Node)) Bool (or ((_ is nilp) srt) (and ((_ is mk_SortOperator) srt) (termsWF (SortOperator.Terms srt) (Seq_Node.len (SortOperator.Terms srt))))))
(define-fun-rec takeWF ((take Node)) Bool (or ((_ is nilp) take) (and ((_ is mk_TakeOperator) take) (exprWF (TakeOperator.RowCount take)))))
(lemma projColsWF-nth :induction n (forall ((l Seq_Node) (n Int) (i Int)) (! (=> (and (projColsWF l n) (<= 0 i) (< i n))
   (and ((_ is mk_ProjectColumn) (Seq_Node.nth l i)) ((_ is mk_Ident) (ProjectColumn.Name (Seq_Node.nth l i))) (or (= (ProjectColumn.X (Seq_Node.nth l i)) nilN) (exprWF (ProjectColumn.X (Seq_Node.nth l i)))))) :pattern ((projColsWF l n) (Seq_Node.nth l i)))))
(lemma extColsWF-nth :induction n (forall ((s Str) (l Seq_Node) (n Int) (i Int)) (! (=> (and (extColsWF s l n) (<= 0 i) (< i n))
   (and ((_ is mk_ExtendColumn) (Seq_Node.nth l i)) (exprWF (ExtendColumn.X (Seq_Node.nth l i)))
        (or ((_ is mk_Ident) (ExtendColumn.Name (Seq_Node.nth l i))) (and ((_ is nilp) (ExtendColumn.Name (Seq_Node.nth l i))) (spanSafe (ExtendColumn.X (Seq_Node.nth l i))) (spanIn s (ExtendColumn.X (Seq_Node.nth l i))))))) :pattern ((extColsWF s l n) (Seq_Node.nth l i)))))
(lemma sumColsWF-nth :induction n (forall ((s Str) (l Seq_Node) (n Int) (i Int)) (! (=> (and (sumColsWF s l n) (<= 0 i) (< i n))
   (and ((_ is mk_SummarizeColumn) (Seq_Node.nth l i)) (exprWF (SummarizeColumn.X (Seq_Node.nth l i)))
        (or ((_ is mk_Ident) (SummarizeColumn.Name (Seq_Node.nth l i))) (and ((_ is nilp) (SummarizeColumn.Name (Seq_Node.nth l i))) (spanSafe (SummarizeColumn.X (Seq_Node.nth l i))) (spanIn s (SummarizeColumn.X (Seq_Node.nth l i))))))) :pattern ((sumColsWF s l n) (Seq_Node.nth l i)))))
(lemma propsWF-nth :induction n (forall ((l Seq_Node) (n Int) (i Int)) (! (=> (and (propsWF l n) (<= 0 i) (< i n))
   (and ((_ is mk_RenderProperty) (Seq_Node.nth l i)) ((_ is mk_Ident) (RenderProperty.Name (Seq_Node.nth l i)))
        (not ((_ is nilp) (RenderProperty.Value (Seq_Node.nth l i)))) (=> ((_ is mk_QualifiedIdent) (RenderProperty.Value (Seq_Node.nth l i))) (exprWF (RenderProperty.Value (Seq_Node.nth l i)))))) :pattern ((propsWF l n) (Seq_Node.nth l i)))))
(lemma termsWF-nth :induction n (forall ((l Seq_Node) (n Int) (i Int)) (! (=> (and (termsWF l n) (<= 0 i) (< i n))
   (and ((_ is mk_SortTerm) (Seq_Node.nth l i)) (exprWF (SortTerm.X (Seq_Node.nth l i))))) :pattern ((termsWF l n) (Seq_Node.nth l i)))))

; ---- subquery plan (DESIGN.md Appendix B)
; generated subquery names: "__subquery<i>" (fmt.Sprintf with %d: assumed injective in i)
(declare-fun sqn (Int) Str)
(declare-fun sqnInv (Str) Int)
(assert (forall ((i Int)) (! (= (sqnInv (sqn i)) i) :pattern ((sqn i)))))
(define-fun typedAs ((op Node) (tag Int)) Bool (or (= (tagOf op) tag) (= op (nilp tag))))
(define-fun canAttach ((op Node)) Bool
  (not (or (typedAs op tag.ProjectOperator) (typedAs op tag.SummarizeOperator) (typedAs op tag.AsOperator) (typedAs op tag.RenderOperator))))
(define-fun srcWF ((src Node)) Bool (and ((_ is mk_TableRef) src) ((_ is mk_Ident) (TableRef.Table src))))
(define-fun tableNameOf ((src Node)) Str (Ident.Name (TableRef.Table src)))
(define-fun tableSQL ((src Node)) Str (Out.str (QI (Ident.Name (TableRef.Table src)) OEmpty)))
(define-fun refSQL ((name Str)) Str (Out.str (QI name OEmpty)))
