; Lexical vocabulary of PQL, written from the property statement (C09):
;   identifiers [A-Za-z_$][A-Za-z0-9_]* with and/or/in/by as keywords, ...
(module-uses consts)

(define-fun scOK ((last Int) (pos Int) (n Int)) Bool (and (<= 0 last) (<= last pos) (<= pos n)))

; rune and width at a byte position (assumed contract of utf8.DecodeRuneInString, see libPrelude)
(define-fun runeAt ((s Str) (i Int)) Int (utf8.rune (Str.slice s i (Str.len s))))
(define-fun runeWidth ((s Str) (i Int)) Int (utf8.size (Str.slice s i (Str.len s))))
(lemma runeAt-props
  (forall ((s Str) (i Int))
    (! (=> (and (<= 0 i) (< i (Str.len s)))
        (and (<= 1 (runeWidth s i)) (<= (runeWidth s i) 4) (<= (+ i (runeWidth s i)) (Str.len s))
             (<= 0 (runeAt s i))
             (=> (< (Str.nth s i) 128) (and (= (runeAt s i) (Str.nth s i)) (= (runeWidth s i) 1)))
             (=> (>= (Str.nth s i) 128) (>= (runeAt s i) 128))))
       :pattern ((utf8.rune (Str.slice s i (Str.len s)))) :pattern ((utf8.size (Str.slice s i (Str.len s)))))))

(define-fun isAlphaC ((c Int)) Bool (or (and (<= 97 c) (<= c 122)) (and (<= 65 c) (<= c 90))))
(define-fun isDigitC ((c Int)) Bool (and (<= 48 c) (<= c 57)))
(define-fun isHexC ((c Int)) Bool (or (isDigitC c) (and (<= 97 c) (<= c 102)) (and (<= 65 c) (<= c 70))))
(define-fun identStartC ((c Int)) Bool (or (isAlphaC c) (= c 95) (= c 36)))
(define-fun identContC ((c Int)) Bool (or (isAlphaC c) (isDigitC c) (= c 95)))

; keywords: and or in by
(define-fun identKind ((v Str)) Int
  (ite (= v "and") TokenAnd (ite (= v "by") TokenBy (ite (= v "in") TokenIn (ite (= v "or") TokenOr TokenIdentifier)))))
(define-fun identValue ((v Str)) Str
  (ite (or (= v "and") (= v "by") (= v "in") (= v "or")) Str.empty v))

; ---- inductively defined regions (introduction rules only; the intended meaning is the least
; fixed point, every proof below uses the rules as hypotheses, which is sound for the least fixed point)

; qbody(s,a,b): [a,b) is the inside of a backtick-quoted identifier so far: runes other than
; backtick and newline, or doubled backticks
(declare-fun qbody (Str Int Int) Bool)
(assert (forall ((s Str) (a Int)) (! (qbody s a a) :pattern ((qbody s a a)))))
; the rules are triggered on the premise term together with the conclusion term (which the goal mentions);
; the arithmetic side conditions are left to the arithmetic solver
(assert (forall ((s Str) (a Int) (b Int) (e Int)) (! (=> (and (qbody s a b) (< b (Str.len s)) (not (= (runeAt s b) 96)) (not (= (runeAt s b) 10)) (= e (+ b (runeWidth s b)))) (qbody s a e)) :pattern ((qbody s a b) (qbody s a e)))))
(assert (forall ((s Str) (a Int) (b Int) (e Int)) (! (=> (and (qbody s a b) (< (+ b 1) (Str.len s)) (= (Str.nth s b) 96) (= (Str.nth s (+ b 1)) 96) (= e (+ b 2))) (qbody s a e)) :pattern ((qbody s a b) (qbody s a e)))))

; digit runs
(define-fun-rec allDigits ((s Str) (a Int) (b Int)) Bool (forall ((i Int)) (=> (and (<= a i) (< i b)) (isDigitC (Str.nth s i)))))
(define-fun-rec allHex ((s Str) (a Int) (b Int)) Bool (forall ((i Int)) (=> (and (<= a i) (< i b)) (isHexC (Str.nth s i)))))
(define-fun digitEnd ((s Str) (e Int)) Bool (or (= e (Str.len s)) (not (isDigitC (Str.nth s e)))))
; exponent [eE][+-]?digits+ occupying [p,e)
(define-fun expDigitsFrom ((s Str) (p Int)) Int (ite (or (= (Str.nth s (+ p 1)) 43) (= (Str.nth s (+ p 1)) 45)) (+ p 2) (+ p 1)))
(define-fun-rec expHead ((s Str) (p Int) (e Int)) Bool
  (and (< p e) (<= e (Str.len s)) (or (= (Str.nth s p) 101) (= (Str.nth s p) 69))
       (< (expDigitsFrom s p) e) (allDigits s (expDigitsFrom s p) e)))

; an exponent could start at p: [eE] digit, or [eE][+-] digit  (longest lexeme: a decimal number that does not
; already end in an exponent must not be followed by one)
(define-fun expStartsAt ((s Str) (p Int)) Bool
  (and (<= 0 p) (< (+ p 1) (Str.len s)) (or (= (Str.nth s p) 101) (= (Str.nth s p) 69))
       (or (isDigitC (Str.nth s (+ p 1)))
           (and (or (= (Str.nth s (+ p 1)) 43) (= (Str.nth s (+ p 1)) 45)) (< (+ p 2) (Str.len s)) (isDigitC (Str.nth s (+ p 2)))))))
(define-fun endsInExp ((s Str) (a Int) (e Int)) Bool (exists ((p Int)) (and (<= a p) (< p e) (expHead s p e))))
; shape of a decimal number: digits and at most one dot (counted by ndots), optionally followed by an exponent
(define-fun-rec allDigDot ((s Str) (a Int) (b Int)) Bool (forall ((i Int)) (=> (and (<= a i) (< i b)) (or (isDigitC (Str.nth s i)) (= (Str.nth s i) 46)))))
(define-fun decShape ((s Str) (a Int) (e Int)) Bool
  (or (allDigDot s a e) (exists ((p Int)) (and (< a p) (< p e) (allDigDot s a p) (expHead s p e)))))
(define-fun hexPrefixAt ((s Str) (a Int)) Bool (and (< (+ a 1) (Str.len s)) (= (Str.nth s a) 48) (or (= (Str.nth s (+ a 1)) 120) (= (Str.nth s (+ a 1)) 88))))
; bytes that may occur in the text of a number token
(define-fun numByte ((c Int)) Bool (or (isHexC c) (= c 46) (= c 120) (= c 88) (= c 43) (= c 45)))
(define-fun-rec allNumBytes ((s Str) (a Int) (b Int)) Bool (forall ((i Int)) (=> (and (<= a i) (< i b)) (numByte (Str.nth s i)))))

; sbody(s,q,a,b): [a,b) is the inside of a string literal with quote q so far: runes other than q,
; newline and backslash, or a backslash followed by any rune but newline
(declare-fun sbody (Str Int Int Int) Bool)
(assert (forall ((s Str) (q Int) (a Int)) (! (sbody s q a a) :pattern ((sbody s q a a)))))
(assert (forall ((s Str) (q Int) (a Int) (b Int) (e Int)) (! (=> (and (sbody s q a b) (< b (Str.len s)) (not (= (runeAt s b) q)) (not (= (runeAt s b) 10)) (not (= (runeAt s b) 92)) (= e (+ b (runeWidth s b)))) (sbody s q a e)) :pattern ((sbody s q a b) (sbody s q a e)))))
(assert (forall ((s Str) (q Int) (a Int) (b Int) (e Int)) (! (=> (and (sbody s q a b) (< (+ b 1) (Str.len s)) (= (runeAt s b) 92) (not (= (runeAt s (+ b 1)) 10)) (= e (+ (+ b 1) (runeWidth s (+ b 1))))) (sbody s q a e)) :pattern ((sbody s q a b) (sbody s q a e)))))

; the decoded value of a string literal body [a,b): without a backslash the text itself; from the first backslash on,
; the builder content sdecV: the text before it, then every rune, an escaped rune standing for itself except n -> newline, t -> tab.
; nobs / hasBS are the two phases (no backslash met yet / met), least predicates given by their rules like sbody.
(define-fun escRune ((c Int)) Int (ite (= c 110) 10 (ite (= c 116) 9 c)))
(declare-fun nobs (Str Int Int) Bool)
(declare-fun hasBS (Str Int Int) Bool)
(declare-fun sdecV (Str Int Int) Out)
(assert (forall ((s Str) (a Int)) (! (nobs s a a) :pattern ((nobs s a a)))))
(assert (forall ((s Str) (a Int) (b Int) (e Int)) (! (=> (and (nobs s a b) (< b (Str.len s)) (not (= (runeAt s b) 92)) (= e (+ b (runeWidth s b)))) (nobs s a e)) :pattern ((nobs s a b) (nobs s a e)))))
(assert (forall ((s Str) (a Int) (b Int) (e Int)) (! (=> (and (nobs s a b) (< (+ b 1) (Str.len s)) (= (runeAt s b) 92) (= e (+ (+ b 1) (runeWidth s (+ b 1))))) (and (hasBS s a e) (= (sdecV s a e) (ORune (OStr OEmpty (Str.slice s a b)) (escRune (runeAt s (+ b 1))))))) :pattern ((nobs s a b) (hasBS s a e)))))
(assert (forall ((s Str) (a Int) (b Int) (e Int)) (! (=> (and (hasBS s a b) (< b (Str.len s)) (not (= (runeAt s b) 92)) (= e (+ b (runeWidth s b)))) (and (hasBS s a e) (= (sdecV s a e) (ORune (sdecV s a b) (runeAt s b))))) :pattern ((hasBS s a b) (hasBS s a e)))))
(assert (forall ((s Str) (a Int) (b Int) (e Int)) (! (=> (and (hasBS s a b) (< (+ b 1) (Str.len s)) (= (runeAt s b) 92) (= e (+ (+ b 1) (runeWidth s (+ b 1))))) (and (hasBS s a e) (= (sdecV s a e) (ORune (sdecV s a b) (escRune (runeAt s (+ b 1))))))) :pattern ((hasBS s a b) (hasBS s a e)))))
(define-fun sdecS ((s Str) (a Int) (b Int)) Str (Out.str (sdecV s a b)))

; gap(s,a,b): [a,b) holds only white space and // comments
(declare-fun noNL (Str Int Int) Bool)
(assert (forall ((s Str) (a Int)) (! (noNL s a a) :pattern ((noNL s a a)))))
(assert (forall ((s Str) (a Int) (b Int) (e Int)) (! (=> (and (noNL s a b) (< b (Str.len s)) (not (= (runeAt s b) 10)) (= e (+ b (runeWidth s b)))) (noNL s a e)) :pattern ((noNL s a b) (noNL s a e)))))
(declare-fun gap (Str Int Int) Bool)
(assert (forall ((s Str) (a Int)) (! (gap s a a) :pattern ((gap s a a)))))
(assert (forall ((s Str) (a Int) (b Int) (e Int)) (! (=> (and (gap s a b) (< b (Str.len s)) (unicode.IsSpace (runeAt s b)) (= e (+ b (runeWidth s b)))) (gap s a e)) :pattern ((gap s a b) (gap s a e)))))
(assert (forall ((s Str) (a Int) (b Int) (c Int) (m Int) (e Int)) (! (=> (and (gap s a b) (< (+ b 1) (Str.len s)) (= (Str.nth s b) 47) (= (Str.nth s (+ b 1)) 47) (= c (+ b 2)) (noNL s c m) (or (and (= m (Str.len s)) (= e m)) (and (< m (Str.len s)) (= (runeAt s m) 10) (= e (+ m 1))))) (gap s a e)) :pattern ((gap s a b) (noNL s c m) (gap s a e)))))

; number of '.' bytes in [a,b)
(define-fun-rec ndots ((s Str) (a Int) (b Int)) Int
  (ite (<= b a) 0 (+ (ndots s a (- b 1)) (ite (= (Str.nth s (- b 1)) 46) 1 0))))
(lemma ndots-nonneg :induction b :lower a (forall ((s Str) (a Int) (b Int)) (! (>= (ndots s a b) 0) :pattern ((ndots s a b)))))
(lemma ndots-ext :induction c :lower b
  (forall ((s Str) (a Int) (b Int) (c Int))
    (! (=> (and (<= a b) (<= b c) (forall ((i Int)) (=> (and (<= b i) (< i c)) (not (= (Str.nth s i) 46)))))
           (= (ndots s a c) (ndots s a b)))
       :pattern ((ndots s a c) (ndots s a b)))))
(define-fun numBytesOf ((v Str)) Bool (allNumBytes v 0 (Str.len v)))
(define-fun prevEnd ((t Seq_Token) (j Int)) Int (ite (<= j 0) 0 (Span.End (Token.Span (Seq_Token.nth t (- j 1))))))

; ---- what each token kind means at its position (C09, written from the property statement)
(define-fun tokText1 ((q Str) (a Int) (e Int) (c Int)) Bool (and (= e (+ a 1)) (= (Str.nth q a) c)))
(define-fun tokText2 ((q Str) (a Int) (e Int) (c Int) (d Int)) Bool (and (= e (+ a 2)) (= (Str.nth q a) c) (= (Str.nth q (+ a 1)) d)))
; ---- numeric value of number tokens (C04/C09), up to the assumed library functions:
; a hexadecimal literal is the decimal spelling (strconv.FormatUint base 10) of the value strconv.ParseUint
; reads from its digits in base 16; a decimal literal keeps its digits, minus leading zeros, with a zero put
; in front of a leading '.' or exponent
(define-fun hexValue ((digits Str)) Str (strconv.FormatUint (strconv.ParseUint.val digits 16) 10))
(define-fun normNum ((s Str)) Str
  (ite (= (Str.len (strings.TrimLeft s "0")) 0) "0"
  (ite (or (= (Str.nth (strings.TrimLeft s "0") 0) 46) (= (Str.nth (strings.TrimLeft s "0") 0) 101) (= (Str.nth (strings.TrimLeft s "0") 0) 69))
       (Str.cat "0" (strings.TrimLeft s "0"))
       (strings.TrimLeft s "0"))))
(define-fun notNext ((q Str) (e Int) (c Int)) Bool (or (= e (Str.len q)) (not (= (Str.nth q e) c))))
(define-fun isWordKind ((k Int)) Bool (or (= k TokenIdentifier) (= k TokenAnd) (= k TokenOr) (= k TokenIn) (= k TokenBy)))
(define-fun hasValue ((k Int)) Bool (or (= k TokenIdentifier) (= k TokenQuotedIdentifier) (= k TokenNumber) (= k TokenString) (= k TokenError)))
(define-fun-rec tokenOKat ((q Str) (k Int) (a Int) (e Int) (v Str)) Bool
  (and
    (or (and (<= 1 k) (<= k 30)) (= k TokenError))
    (=> (not (hasValue k)) (= v Str.empty))
    (=> (= k TokenComma) (tokText1 q a e 44))
    (=> (= k TokenPipe) (tokText1 q a e 124))
    (=> (= k TokenLParen) (tokText1 q a e 40))
    (=> (= k TokenRParen) (tokText1 q a e 41))
    (=> (= k TokenLBracket) (tokText1 q a e 91))
    (=> (= k TokenRBracket) (tokText1 q a e 93))
    (=> (= k TokenPlus) (tokText1 q a e 43))
    (=> (= k TokenMinus) (tokText1 q a e 45))
    (=> (= k TokenStar) (tokText1 q a e 42))
    (=> (= k TokenMod) (tokText1 q a e 37))
    (=> (= k TokenSemi) (tokText1 q a e 59))
    (=> (= k TokenEq) (tokText2 q a e 61 61))
    (=> (= k TokenCaseInsensitiveEq) (tokText2 q a e 61 126))
    (=> (= k TokenNE) (tokText2 q a e 33 61))
    (=> (= k TokenCaseInsensitiveNE) (tokText2 q a e 33 126))
    (=> (= k TokenLE) (tokText2 q a e 60 61))
    (=> (= k TokenGE) (tokText2 q a e 62 61))
    (=> (= k TokenAssign) (and (tokText1 q a e 61) (notNext q e 61) (notNext q e 126)))
    (=> (= k TokenLT) (and (tokText1 q a e 60) (notNext q e 61)))
    (=> (= k TokenGT) (and (tokText1 q a e 62) (notNext q e 61)))
    (=> (= k TokenSlash) (and (tokText1 q a e 47) (notNext q e 47)))
    (=> (= k TokenDot) (and (tokText1 q a e 46) (digitEnd q e)))
    (=> (isWordKind k)
        (and (identStartC (Str.nth q a))
             (forall ((i Int)) (=> (and (< a i) (< i e)) (identContC (Str.nth q i))))
             (or (= e (Str.len q)) (not (identContC (Str.nth q e))))
             (= k (identKind (Str.slice q a e))) (= v (identValue (Str.slice q a e)))))
    (=> (= k TokenQuotedIdentifier)
        (and (<= (+ a 2) e) (= (Str.nth q a) 96) (= (Str.nth q (- e 1)) 96) (qbody q (+ a 1) (- e 1)) (notNext q e 96)
             (= v (strings.ReplaceAll (Str.slice q (+ a 1) (- e 1)) "``" "`"))))
    (=> (= k TokenString)
        (and (<= (+ a 2) e) (or (= (Str.nth q a) 39) (= (Str.nth q a) 34)) (= (Str.nth q (- e 1)) (Str.nth q a))
             (sbody q (Str.nth q a) (+ a 1) (- e 1))))
    ; one error token per unrecognisable piece: a single rune that starts no token, a hex prefix
    ; without digits (or a hex literal that does not fit), an unterminated quoted identifier or string
    (=> (= k TokenError)
        (or (= e (+ a (runeWidth q a)))
            (and (= (Str.nth q a) 48) (or (= (Str.nth q (+ a 1)) 120) (= (Str.nth q (+ a 1)) 88)) (or (= e (+ a 2)) (and (< (+ a 2) e) (allHex q (+ a 2) e))))
            (and (= (Str.nth q a) 96) (qbody q (+ a 1) e) (or (= e (Str.len q)) (= (Str.nth q e) 10)))
            (and (or (= (Str.nth q a) 39) (= (Str.nth q a) 34)) (or (= e (Str.len q)) (= (Str.nth q e) 10))
                 (or (sbody q (Str.nth q a) (+ a 1) e) (and (sbody q (Str.nth q a) (+ a 1) (- e 1)) (= (Str.nth q (- e 1)) 92))))))
    (=> (= k TokenNumber)
        (and (or (isDigitC (Str.nth q a)) (= (Str.nth q a) 46)) (allNumBytes q a e) (digitEnd q e) (<= (ndots q a e) 1)
             (numBytesOf v) (> (Str.len v) 0)
             ; shape: 0x hex-digits, or digits with at most one dot and an optional exponent
             (ite (hexPrefixAt q a) (and (< (+ a 2) e) (allHex q (+ a 2) e)) (decShape q a e))
             ; longest lexeme: an exponent that could follow a decimal number belongs to it
             (or (and (< (+ a 1) (Str.len q)) (= (Str.nth q a) 48) (or (= (Str.nth q (+ a 1)) 120) (= (Str.nth q (+ a 1)) 88)))
                 (endsInExp q a e) (not (expStartsAt q e)))
             ; the value: decimal spelling of the same number
             (= v (ite (and (< (+ a 1) (Str.len q)) (= (Str.nth q a) 48) (or (= (Str.nth q (+ a 1)) 120) (= (Str.nth q (+ a 1)) 88)))
                       (hexValue (Str.slice q (+ a 2) e)) (normNum (Str.slice q a e))))))))
(define-fun-rec tokenOK ((q Str) (t Token)) Bool
  (tokenOKat q (Token.Kind t) (Span.Start (Token.Span t)) (Span.End (Token.Span t)) (Token.Value t)))

; Scan as a function of its input: scanOf(q) names the value Scan(q) returns (Scan is sequential,
; deterministic code: no map iteration, no goroutines, no mutable globals -- checked syntactically)
(declare-fun scanOf (Str) Seq_Token)
; number of semicolon tokens among the first n
(define-fun-rec nsemi ((t Seq_Token) (n Int)) Int
  (ite (<= n 0) 0 (+ (nsemi t (- n 1)) (ite (= (Token.Kind (Seq_Token.nth t (- n 1))) TokenSemi) 1 0))))
; the first k pieces, each followed by a semicolon
(define-fun-rec joinSemi ((p Seq_Str) (k Int)) Str
  (ite (<= k 0) Str.empty (Str.cat (Str.cat (joinSemi p (- k 1)) (Seq_Str.nth p (- k 1))) ";")))
(lemma joinSemi-snoc :induction k
  (forall ((p Seq_Str) (x Str) (k Int))
    (! (=> (<= k (Seq_Str.len p)) (= (joinSemi (Seq_Str.snoc p x) k) (joinSemi p k))) :pattern ((joinSemi (Seq_Str.snoc p x) k)))))
(lemma ndots-split :induction c :lower b
  (forall ((s Str) (a Int) (b Int) (c Int))
    (! (=> (and (<= a b) (<= b c)) (= (ndots s a c) (+ (ndots s a b) (ndots s b c))))
       :pattern ((ndots s a b) (ndots s b c)))))
(lemma allNumBytes-join
  (forall ((s Str) (a Int) (b Int) (c Int))
    (! (=> (and (allNumBytes s a b) (allNumBytes s b c)) (allNumBytes s a c))
       :pattern ((allNumBytes s a b) (allNumBytes s b c)))))
(lemma ndots-peel
  (forall ((s Str) (a Int) (b Int) (c Int))
    (! (=> (and (= b (+ a 1)) (<= b c))
           (and (= (ndots s a b) (ite (= (Str.nth s a) 46) 1 0))
                (= (ndots s a c) (+ (ndots s a b) (ndots s b c)))))
       :pattern ((ndots s a c) (ndots s b c)))))
(lemma nsemi-nonneg :induction n (forall ((t Seq_Token) (n Int)) (! (>= (nsemi t n) 0) :pattern ((nsemi t n)))))
