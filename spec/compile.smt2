; Whole-statement specification (C05, C06, C13): the scope built from parameters and let statements,
; and the text of the single SQL statement that is emitted.
(module-uses consts height spanof expr plan joincond view tabwf split)

; is there a tabular statement among the first k?
(define-fun-rec QB ((l Seq_Node) (k Int)) Bool
  (ite (<= k 0) false (or (QB l (- k 1)) ((_ is mk_TabularExpr) (Seq_Node.nth l (- k 1))))))
; number of tabular statements among the first k
(define-fun-rec NQ ((l Seq_Node) (k Int)) Int
  (ite (<= k 0) 0 (+ (NQ l (- k 1)) (ite ((_ is mk_TabularExpr) (Seq_Node.nth l (- k 1))) 1 0))))
; the first tabular statement among the first k (nil pointer if none)
(define-fun-rec FQ ((l Seq_Node) (k Int)) Node
  (ite (<= k 0) (nilp tag.TabularExpr)
       (ite (QB l (- k 1)) (FQ l (- k 1))
            (ite ((_ is mk_TabularExpr) (Seq_Node.nth l (- k 1))) (Seq_Node.nth l (- k 1)) (nilp tag.TabularExpr)))))

; scope after the first k statements: parameters, then every let written BEFORE the query, in order
; (a later let of the same name shadows; lets after the query have no effect); a let value is the SQL of
; its expression, maybe parenthesised, evaluated in let mode in the scope so far
(declare-fun SD (Seq_Node Int (Array Str Bool) (Array Str Str)) (Array Str Bool))
(declare-fun SV (Seq_Node Int (Array Str Bool) (Array Str Str)) (Array Str Str))
(define-fun letActive ((l Seq_Node) (k Int)) Bool (and ((_ is mk_LetStatement) (Seq_Node.nth l (- k 1))) (not (QB l (- k 1)))))
(define-fun letName ((l Seq_Node) (k Int)) Str (Ident.Name (LetStatement.Name (Seq_Node.nth l (- k 1)))))
(assert (forall ((l Seq_Node) (k Int) (d0 (Array Str Bool)) (v0 (Array Str Str)))
  (! (= (SD l k d0 v0) (ite (<= k 0) d0 (ite (letActive l k) (store (SD l (- k 1) d0 v0) (letName l k) true) (SD l (- k 1) d0 v0))))
     :pattern ((SD l k d0 v0)))))
(assert (forall ((l Seq_Node) (k Int) (d0 (Array Str Bool)) (v0 (Array Str Str)))
  (! (= (SV l k d0 v0)
        (ite (<= k 0) v0
        (ite (letActive l k)
             (store (SV l (- k 1) d0 v0) (letName l k)
                    (Out.str (WMP (SD l (- k 1) d0 v0) (SV l (- k 1) d0 v0) 2 (LetStatement.X (Seq_Node.nth l (- k 1))) OEmpty)))
             (SV l (- k 1) d0 v0))))
     :pattern ((SV l k d0 v0)))))

; ---- the emitted statement:  [WITH n1 AS (S1), ... ] Sk ;
(define-fun WSsub ((sd (Array Str Bool)) (sv (Array Str Str)) (source Str) (u Sub) (o Out)) Out
  (WS sd sv 0 source (Sub.src u) (Sub.op u) (Sub.sort u) (Sub.take u) o))
; common table expressions p[i..n)
(declare-fun WCtes ((Array Str Bool) (Array Str Str) Str Seq_Sub Int Int Out) Out)
(assert (forall ((sd (Array Str Bool)) (sv (Array Str Str)) (source Str) (p Seq_Sub) (i Int) (n Int) (o Out))
  (! (= (WCtes sd sv source p i n o)
        (ite (>= i n) o
          (WCtes sd sv source p (+ i 1) n
            (let ((o1 (O+ (WSsub sd sv source (Seq_Sub.nth p i) (O+ (QI (Sub.name (Seq_Sub.nth p i)) o) " AS (")) ")")))
              (ite (< i (- n 1)) (O+ o1 ",\n     ") (O+ o1 "\n"))))))
     :pattern ((WCtes sd sv source p i n o)))))
(define-fun StmtOut ((sd (Array Str Bool)) (sv (Array Str Str)) (source Str) (p Seq_Sub)) Out
  (let ((n (Seq_Sub.len p)))
  (let ((o1 (ite (> (- n 1) 0) (WCtes sd sv source p 0 (- n 1) (O+ OEmpty "WITH ")) OEmpty)))
    (O+ (WSsub sd sv source (Seq_Sub.nth p (- n 1)) o1) ";"))))
