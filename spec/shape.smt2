; C07: the grouping the documented grammar prescribes, stated as a local condition on every node of the tree.
;   binary operators group by precedence (or < and < comparisons < + - < * / %) and to the left among equals:
;     the left operand of an operator of precedence q is not a binary expression of lower precedence,
;     the right operand is not a binary expression of the same or lower precedence;
;   `x in (list)` is a complete test at comparison level: its own left operand groups at least as tightly as a
;     comparison; as a right operand it counts as a comparison; any following operator takes it whole (as a left
;     operand it counts as atomic);
;   a sign binds tighter than any binary operator and looser than indexing and calls: its operand is primary.
(module-uses consts height spanof perr walk)
(define-fun leftPrec ((e Node)) Int (ite ((_ is mk_BinaryExpr) e) (opPrec (BinaryExpr.Op e)) 9))
(define-fun rightPrec ((e Node)) Int (ite ((_ is mk_BinaryExpr) e) (opPrec (BinaryExpr.Op e)) (ite ((_ is mk_InExpr) e) 2 9)))
(define-fun primaryShape ((e Node)) Bool (not (or ((_ is mk_BinaryExpr) e) ((_ is mk_InExpr) e) ((_ is mk_UnaryExpr) e))))
(define-fun shapeLocal ((n Node)) Bool
  (and (=> ((_ is mk_BinaryExpr) n)
           (and (>= (opPrec (BinaryExpr.Op n)) 0) (not (= (BinaryExpr.Op n) TokenIn))
                (>= (leftPrec (BinaryExpr.X n)) (opPrec (BinaryExpr.Op n)))
                (> (rightPrec (BinaryExpr.Y n)) (opPrec (BinaryExpr.Op n)))))
       (=> ((_ is mk_InExpr) n) (>= (leftPrec (InExpr.X n)) 2))
       (=> ((_ is mk_UnaryExpr) n) (primaryShape (UnaryExpr.X n)))
       (=> ((_ is mk_IndexExpr) n) (primaryShape (IndexExpr.X n)))))
(declare-deep shapeOK shapeOKList shapeLocal)
; C10: bracket and keyword spans are recorded in the positions they were read from: an opening bracket lies before
; its closing bracket (both recorded), `in` before its list, a join's ')' before `on`, `with` before its '('
(define-fun before ((a Span) (b Span)) Bool (and (spanValid a) (spanValid b) (<= (Span.End a) (Span.Start b))))
(define-fun bracketLocal ((n Node)) Bool
  (and (=> ((_ is mk_ParenExpr) n) (before (ParenExpr.Lparen n) (ParenExpr.Rparen n)))
       (=> ((_ is mk_CallExpr) n) (before (CallExpr.Lparen n) (CallExpr.Rparen n)))
       (=> ((_ is mk_InExpr) n) (and (before (InExpr.In n) (InExpr.Lparen n)) (before (InExpr.Lparen n) (InExpr.Rparen n))))
       (=> ((_ is mk_IndexExpr) n) (before (IndexExpr.Lbrack n) (IndexExpr.Rbrack n)))
       (=> ((_ is mk_JoinOperator) n) (and (before (JoinOperator.Lparen n) (JoinOperator.Rparen n)) (before (JoinOperator.Rparen n) (JoinOperator.On n))))
       (=> ((_ is mk_RenderOperator) n) (=> (spanValid (RenderOperator.With n))
            (and (before (RenderOperator.With n) (RenderOperator.Lparen n)) (before (RenderOperator.Lparen n) (RenderOperator.Rparen n)))))))
(declare-deep bracketsOK bracketsOKList bracketLocal)
; what the parser delivers about every node: Span() is safe on it and it has the prescribed shape
; ... and Walk can traverse it (walkWF: every mandatory child is present; the precondition of C11)
(define-fun nodeOK ((n Node)) Bool (and (spanSafe n) (shapeOK n) (walkWF n) (bracketsOK n)))
(define-fun nodeOKList ((l Seq_Node) (n Int)) Bool (and (spanSafeList l n) (shapeOKList l n) (walkWFL l n) (bracketsOKList l n)))
; render properties are not walkable nodes of their own: Walk visits their name and value
(define-fun propOK ((n Node)) Bool (and (spanSafe n) (shapeOK n) (bracketsOK n) (walkWF (RenderProperty.Name n)) (walkWFopt (RenderProperty.Value n))))
(define-fun propsOKList ((l Seq_Node) (n Int)) Bool (and (spanSafeList l n) (shapeOKList l n) (bracketsOKList l n) (walkWFprops l n)))
