; Lemmas the parser productions need to establish tabular well-formedness while appending.
(module-uses consts height spanof exprwf expr plan tabwf perr)

(lemma opsWFL-snoc :induction n (forall ((s Str) (l Seq_Node) (x Node) (n Int)) (! (=> (<= n (Seq_Node.len l)) (= (opsWFL s (Seq_Node.snoc l x) n) (opsWFL s l n))) :pattern ((opsWFL s (Seq_Node.snoc l x) n)))))
(lemma termsWF-snoc :induction n (forall ((l Seq_Node) (x Node) (n Int)) (! (=> (<= n (Seq_Node.len l)) (= (termsWF (Seq_Node.snoc l x) n) (termsWF l n))) :pattern ((termsWF (Seq_Node.snoc l x) n)))))
(lemma extColsWF-snoc :induction n (forall ((s Str) (l Seq_Node) (x Node) (n Int)) (! (=> (<= n (Seq_Node.len l)) (= (extColsWF s (Seq_Node.snoc l x) n) (extColsWF s l n))) :pattern ((extColsWF s (Seq_Node.snoc l x) n)))))
(lemma sumColsWF-snoc :induction n (forall ((s Str) (l Seq_Node) (x Node) (n Int)) (! (=> (<= n (Seq_Node.len l)) (= (sumColsWF s (Seq_Node.snoc l x) n) (sumColsWF s l n))) :pattern ((sumColsWF s (Seq_Node.snoc l x) n)))))
(lemma propsWF-snoc :induction n (forall ((l Seq_Node) (x Node) (n Int)) (! (=> (<= n (Seq_Node.len l)) (= (propsWF (Seq_Node.snoc l x) n) (propsWF l n))) :pattern ((propsWF (Seq_Node.snoc l x) n)))))
(lemma projColsWF-snoc :induction n (forall ((l Seq_Node) (x Node) (n Int)) (! (=> (<= n (Seq_Node.len l)) (= (projColsWF (Seq_Node.snoc l x) n) (projColsWF l n))) :pattern ((projColsWF (Seq_Node.snoc l x) n)))))
