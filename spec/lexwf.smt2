; What the parser may assume about the tokens Scan delivers, derived from Scan's token-class contract (C09).
(module-uses consts lex height spanof exprwf)
(lemma tokenOK-plain
  (forall ((q Str) (t Token))
    (! (=> (and (tokenOK q t) (= (Token.Kind t) TokenIdentifier)
                (<= 0 (Span.Start (Token.Span t))) (< (Span.Start (Token.Span t)) (Span.End (Token.Span t))) (<= (Span.End (Token.Span t)) (Str.len q)))
           (plainName (Token.Value t)))
       :pattern ((tokenOK q t)))))
