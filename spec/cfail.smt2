; C13 at the level of Compile: given that the source parses, compilation fails exactly when
;   a second tabular statement appears ("more than one"), or there is none;
;   a let written before the query has a value that fails in let mode in the scope so far;
;   a join condition (or the right-hand pipeline of a join) fails;
;   one of the subqueries of the plan fails to be written.
(module-uses consts height spanof expr plan joincond view tabwf split compile fail)
(define-fun subFailU ((sd (Array Str Bool)) (u Sub)) Bool (subFail sd 0 (Sub.op u) (Sub.sort u) (Sub.take u)))
(declare-fun planFailL ((Array Str Bool) Seq_Sub Int) Bool)
(assert (forall ((sd (Array Str Bool)) (p Seq_Sub) (n Int))
  (! (= (planFailL sd p n) (ite (<= n 0) false (or (planFailL sd p (- n 1)) (subFailU sd (Seq_Sub.nth p (- n 1)))))) :pattern ((planFailL sd p n)))))
(lemma planFailL-mono :induction n (forall ((sd (Array Str Bool)) (p Seq_Sub) (k Int) (n Int)) (! (=> (and (planFailL sd p k) (<= k n)) (planFailL sd p n)) :pattern ((planFailL sd p k) (planFailL sd p n)))))
(lemma planFailL-elem :induction n (forall ((sd (Array Str Bool)) (p Seq_Sub) (i Int) (n Int))
  (! (=> (and (subFailU sd (Seq_Sub.nth p i)) (<= 0 i) (< i n)) (planFailL sd p n)) :pattern ((Seq_Sub.nth p i) (planFailL sd p n)))))
(define-fun stmtFailAt ((l Seq_Node) (i Int) (d0 (Array Str Bool)) (v0 (Array Str Str))) Bool
  (ite ((_ is mk_LetStatement) (Seq_Node.nth l i))
       (and (not (QB l i)) (Wfail (SD l i d0 v0) 2 (LetStatement.X (Seq_Node.nth l i))))
       (and ((_ is mk_TabularExpr) (Seq_Node.nth l i)) (QB l i))))
(declare-fun stmtsFail (Seq_Node Int (Array Str Bool) (Array Str Str)) Bool)
(assert (forall ((l Seq_Node) (k Int) (d0 (Array Str Bool)) (v0 (Array Str Str)))
  (! (= (stmtsFail l k d0 v0) (ite (<= k 0) false (or (stmtsFail l (- k 1) d0 v0) (stmtFailAt l (- k 1) d0 v0)))) :pattern ((stmtsFail l k d0 v0)))))
(lemma stmtsFail-mono :induction n (forall ((l Seq_Node) (k Int) (n Int) (d0 (Array Str Bool)) (v0 (Array Str Str))) (! (=> (and (stmtsFail l k d0 v0) (<= k n)) (stmtsFail l n d0 v0)) :pattern ((stmtsFail l k d0 v0) (stmtsFail l n d0 v0)))))
(lemma stmtsFail-elem :induction n (forall ((l Seq_Node) (i Int) (n Int) (d0 (Array Str Bool)) (v0 (Array Str Str)))
  (! (=> (and (stmtFailAt l i d0 v0) (<= 0 i) (< i n)) (stmtsFail l n d0 v0)) :pattern ((Seq_Node.nth l i) (stmtsFail l n d0 v0)))))
(define-fun compFailS ((stmts Seq_Node) (d0 (Array Str Bool)) (v0 (Array Str Str))) Bool
  (or (stmtsFail stmts (Seq_Node.len stmts) d0 v0)
      (= (NQ stmts (Seq_Node.len stmts)) 0)
      (joinsFailL (SD stmts (Seq_Node.len stmts) d0 v0) (TabularExpr.Operators (FQ stmts (Seq_Node.len stmts))) (Seq_Node.len (TabularExpr.Operators (FQ stmts (Seq_Node.len stmts)))))
      (planFailL (SD stmts (Seq_Node.len stmts) d0 v0)
                 (SplitT (SD stmts (Seq_Node.len stmts) d0 v0) (SV stmts (Seq_Node.len stmts) d0 v0) (FQ stmts (Seq_Node.len stmts)) Seq_Sub.empty)
                 (Seq_Sub.len (SplitT (SD stmts (Seq_Node.len stmts) d0 v0) (SV stmts (Seq_Node.len stmts) d0 v0) (FQ stmts (Seq_Node.len stmts)) Seq_Sub.empty)))))
