; The subquery plan (DESIGN.md Appendix B), written from property statements C02/C03/C05/C06.
; A plan is a sequence of Sub records; Split folds the operators of a pipeline over it.
(module-uses consts height spanof expr plan joincond view tabwf)

; the source a new subquery of this pipeline reads: the previous subquery of the pipeline, else the table
(define-fun chainSrc ((p Seq_Sub) (start Int) (tbl Node)) Str
  (ite (> (Seq_Sub.len p) start) (refSQL (Sub.name (lastSub p))) (tableSQL tbl)))
(define-fun newSub ((p Seq_Sub) (start Int) (tbl Node) (op Node) (srt Node) (tk Node)) Seq_Sub
  (Seq_Sub.snoc p (mk_Sub (sqn (Seq_Sub.len p)) (chainSrc p start tbl) op srt tk)))
; may an ORDER BY / LIMIT be attached to the current subquery of this pipeline?
(define-fun canSort ((p Seq_Sub) (start Int)) Bool
  (and (> (Seq_Sub.len p) start) (canAttach (Sub.op (lastSub p))) (= (Sub.sort (lastSub p)) nilSort) (= (Sub.take (lastSub p)) nilTake)))
(define-fun canTake ((p Seq_Sub) (start Int)) Bool
  (and (> (Seq_Sub.len p) start) (canAttach (Sub.op (lastSub p))) (= (Sub.take (lastSub p)) nilTake)))
(define-fun setLast ((p Seq_Sub) (srt Node) (tk Node)) Seq_Sub
  (Seq_Sub.snoc (initSub p) (mk_Sub (Sub.name (lastSub p)) (Sub.src (lastSub p)) (Sub.op (lastSub p)) srt tk)))

; ---- the SQL of a join source
(define-fun flavorOf ((fl Node)) Str (ite ((_ is mk_Ident) fl) (Ident.Name fl) "innerunique"))
(define-fun joinSrc ((sd (Array Str Bool)) (sv (Array Str Str)) (fl Str) (hasLeft Bool) (leftName Str) (tbl Node) (rightName Str) (cond Node)) Str
  (let ((o1 (ite (= fl "innerunique") (O+ OEmpty "(SELECT DISTINCT * FROM ") OEmpty)))
  (let ((o2 (ite hasLeft (QI leftName o1) (QI (tableNameOf tbl) o1))))
  (let ((o3 (ite (= fl "innerunique") (O+ o2 ")") o2)))
  (let ((o4 (O+ o3 " AS ""$left""")))
  (let ((o5 (ite (= fl "leftouter") (O+ o4 " LEFT JOIN ") (O+ o4 " JOIN "))))
  (let ((o6 (O+ (QI rightName o5) " AS ""$right"" ON ")))
    (Out.str (W sd sv 1 cond o6)))))))))

; ---- Split: fold the operators ops[i..] over the plan p (pipeline started at index start, reads table tbl).
; The recursion is fuelled (Dafny style): Split$ (FS f) unfolds to a body over Split$ f, and the fuel is
; irrelevant to the value (synonym axiom), so one occurrence can be unfolded only a bounded number of times
; and E-matching cannot loop through the definition.
(declare-fun Split$ (Fuel (Array Str Bool) (Array Str Str) Seq_Node Int Seq_Sub Int Node) Seq_Sub)
(declare-fun SplitStep$ (Fuel (Array Str Bool) (Array Str Str) Seq_Sub Int Node Node) Seq_Sub)
(define-fun Split ((sd (Array Str Bool)) (sv (Array Str Str)) (ops Seq_Node) (i Int) (p Seq_Sub) (start Int) (tbl Node)) Seq_Sub
  (Split$ (FS (FS FZ)) sd sv ops i p start tbl))
(define-fun SplitT ((sd (Array Str Bool)) (sv (Array Str Str)) (e Node) (p Seq_Sub)) Seq_Sub
  (Split sd sv (TabularExpr.Operators e) 0 p (Seq_Sub.len p) (TabularExpr.Source e)))
(assert (forall ((f Fuel) (sd (Array Str Bool)) (sv (Array Str Str)) (ops Seq_Node) (i Int) (p Seq_Sub) (start Int) (tbl Node))
  (! (= (Split$ (FS f) sd sv ops i p start tbl) (Split$ f sd sv ops i p start tbl))
     :pattern ((Split$ (FS f) sd sv ops i p start tbl)))))
(assert (forall ((f Fuel) (sd (Array Str Bool)) (sv (Array Str Str)) (p Seq_Sub) (start Int) (tbl Node) (op Node))
  (! (= (SplitStep$ (FS f) sd sv p start tbl op) (SplitStep$ f sd sv p start tbl op))
     :pattern ((SplitStep$ (FS f) sd sv p start tbl op)))))
(assert (forall ((f Fuel) (sd (Array Str Bool)) (sv (Array Str Str)) (ops Seq_Node) (i Int) (p Seq_Sub) (start Int) (tbl Node))
  (! (= (Split$ (FS f) sd sv ops i p start tbl)
        (ite (>= i (Seq_Node.len ops))
             (ite (= (Seq_Sub.len p) start) (newSub p start tbl nilN nilSort nilTake) p)
             (Split$ f sd sv ops (+ i 1) (SplitStep$ (FS f) sd sv p start tbl (Seq_Node.nth ops i)) start tbl)))
     :pattern ((Split$ (FS f) sd sv ops i p start tbl)))))
(assert (forall ((f Fuel) (sd (Array Str Bool)) (sv (Array Str Str)) (p Seq_Sub) (start Int) (tbl Node) (op Node))
  (! (= (SplitStep$ (FS f) sd sv p start tbl op)
      (ite ((_ is mk_AsOperator) op)
           (Seq_Sub.snoc p (mk_Sub (Ident.Name (AsOperator.Name op)) (chainSrc p start tbl) op nilSort nilTake))
      (ite ((_ is mk_SortOperator) op)
           (ite (canSort p start) (setLast p op (Sub.take (lastSub p))) (newSub p start tbl nilN op nilTake))
      (ite ((_ is mk_TakeOperator) op)
           (ite (canTake p start) (setLast p (Sub.sort (lastSub p)) op) (newSub p start tbl nilN nilSort op))
      (ite ((_ is mk_TopOperator) op)
           ; top N by k  ==  sort by k, then take N, on one subquery
           (let ((srt (mk_SortOperator (TopOperator.Pipe op) (TopOperator.Keyword op) (Seq_Node.snoc Seq_Node.empty (TopOperator.Col op))))
                 (tk (mk_TakeOperator (TopOperator.Pipe op) (TopOperator.Keyword op) (TopOperator.RowCount op))))
             (ite (canSort p start) (setLast p srt tk) (newSub p start tbl nilN srt tk)))
      (ite ((_ is mk_JoinOperator) op)
           ; the right-hand pipeline is compiled as a query of its own, appended after the plan so far;
           ; then one subquery joins the pipeline so far (or the table) with the last subquery of the right side
           (let ((p1 (Split$ f sd sv (TabularExpr.Operators (JoinOperator.Right op)) 0 p (Seq_Sub.len p) (TabularExpr.Source (JoinOperator.Right op)))))
             (Seq_Sub.snoc p1
               (mk_Sub (sqn (Seq_Sub.len p1))
                       (joinSrc sd sv (flavorOf (JoinOperator.Flavor op)) (> (Seq_Sub.len p) start) (Sub.name (lastSub p)) tbl
                                (Sub.name (lastSub p1)) (JoinCond (JoinOperator.Conditions op)))
                       nilN nilSort nilTake)))
           ; where, project, extend, summarize, count, render: a new subquery reading the chain
           (newSub p start tbl op nilSort nilTake)))))))
     :pattern ((SplitStep$ (FS f) sd sv p start tbl op)))))

; every subquery of a plan can be written (precondition of write)
(define-fun-rec subWF ((s Str) (u Sub)) Bool (and (opWF s (Sub.op u)) (sortWF (Sub.sort u)) (takeWF (Sub.take u))))
(define-fun-rec planWF ((s Str) (p Seq_Sub) (n Int)) Bool
  (ite (<= n 0) true (and (planWF s p (- n 1)) (subWF s (Seq_Sub.nth p (- n 1))))))
(lemma planWF-nth :induction n (forall ((s Str) (p Seq_Sub) (n Int) (i Int)) (! (=> (and (planWF s p n) (<= 0 i) (< i n)) (subWF s (Seq_Sub.nth p i))) :pattern ((planWF s p n) (Seq_Sub.nth p i)))))
(lemma planWF-snoc :induction n (forall ((s Str) (p Seq_Sub) (u Sub) (n Int)) (! (=> (<= n (Seq_Sub.len p)) (= (planWF s (Seq_Sub.snoc p u) n) (planWF s p n))) :pattern ((planWF s (Seq_Sub.snoc p u) n)))))
(lemma planWF-slice :induction n (forall ((s Str) (p Seq_Sub) (k Int) (n Int)) (! (=> (and (<= n k) (<= k (Seq_Sub.len p))) (= (planWF s (Seq_Sub.slice p 0 k) n) (planWF s p n))) :pattern ((planWF s (Seq_Sub.slice p 0 k) n)))))
