; The rendering specification W (DESIGN.md Appendix A): what SQL text the compiler is meant to
; emit for a PQL scalar expression, as a function of the tree.  Written from the property
; statements C01/C04/C06/C13, in accumulator form: (W sd sv m x o) is the builder content after
; writing x onto content o.   Context: sd/sv = the scope map (domain / value), m = mode
; (0 default, 1 join condition, 2 let value).
(module-uses consts height spanof exprwf)

(define-fun isBuiltinName ((k Str)) Bool (or (= k "true") (= k "false") (= k "null")))
(define-fun builtinSQL ((k Str)) Str (ite (= k "true") "TRUE" (ite (= k "false") "FALSE" (ite (= k "null") "NULL" Str.empty))))
(define-fun binopSQL ((op Int)) Str
  (ite (= op TokenAnd) "AND" (ite (= op TokenOr) "OR" (ite (= op TokenPlus) "+" (ite (= op TokenMinus) "-"
  (ite (= op TokenStar) "*" (ite (= op TokenSlash) "/" (ite (= op TokenMod) "%" (ite (= op TokenLT) "<"
  (ite (= op TokenLE) "<=" (ite (= op TokenGT) ">" (ite (= op TokenGE) ">=" Str.empty))))))))))))

; ---- quoting: double every occurrence of the quote character q, wrap in q ... q
(define-fun-rec EscQ ((s Str) (q Int) (i Int) (o Out)) Out
  (ite (>= i (Str.len s)) o
       (EscQ s q (+ i 1) (ite (= (Str.nth s i) q) (OByte (OByte o q) q) (OByte o (Str.nth s i))))))
(define-fun QI ((s Str) (o Out)) Out (OByte (EscQ s 34 0 (OByte o 34)) 34))
(define-fun QS ((s Str) (o Out)) Out (OByte (EscQ s 39 0 (OByte o 39)) 39))

; ---- the documented built-in functions and whether their SQL needs parentheses as an operand
(define-fun KFknown ((k Str)) Bool
  (or (= k "count") (= k "countif") (= k "iif") (= k "iff") (= k "isnotnull") (= k "isnull")
      (= k "not") (= k "now") (= k "strcat") (= k "tolower") (= k "toupper")))
; NOT x, x IS NULL, a || b are not self-delimiting: they need parentheses as operands;
; the compiler also parenthesises CASE..END and LOWER()/UPPER() (harmless), count/countif/now stay bare
(define-fun KFparens ((k Str)) Bool
  (or (= k "iif") (= k "iff") (= k "isnotnull") (= k "isnull") (= k "not") (= k "strcat") (= k "tolower") (= k "toupper")))

(define-fun identNamed ((n Node) (k Str)) Bool (and ((_ is mk_Ident) n) (= (Ident.Name n) k)))
; which side(s) of a join an expression mentions (result of hasJoinTerms)
(declare-fun hasLeft (Node) Bool)
(declare-fun hasRight (Node) Bool)

(declare-fun strip (Node) Node)
(assert (forall ((lp Span) (x Node) (rp Span)) (! (= (strip (mk_ParenExpr lp x rp)) (strip x)) :pattern ((strip (mk_ParenExpr lp x rp))))))
(assert (forall ((n Node)) (! (=> (not ((_ is mk_ParenExpr) n)) (= (strip n) n)) :pattern ((strip n)))))

(define-fun callName ((n Node)) Str (Ident.Name (CallExpr.Func n)))
; may this (stripped) expression be written without parentheses as an operand?
(define-fun bareOK ((n Node)) Bool
  (or ((_ is mk_QualifiedIdent) n) ((_ is mk_UnaryExpr) n) ((_ is mk_BasicLit) n)
      (and ((_ is mk_CallExpr) n) (not (and (KFknown (callName n)) (KFparens (callName n)))))))

(declare-fun W ((Array Str Bool) (Array Str Str) Int Node Out) Out)
(declare-fun WMP ((Array Str Bool) (Array Str Str) Int Node Out) Out)
(declare-fun WMPu ((Array Str Bool) (Array Str Str) Int Node Out) Out)
(declare-fun Wparts (Seq_Node Int Out) Out)
(declare-fun Wlist ((Array Str Bool) (Array Str Str) Int Seq_Node Int Out) Out)
(declare-fun WMPlist ((Array Str Bool) (Array Str Str) Int Seq_Node Int Out) Out)
(declare-fun Wcat ((Array Str Bool) (Array Str Str) Int Seq_Node Int Out) Out)
(declare-fun Wcall ((Array Str Bool) (Array Str Str) Int Str Seq_Node Out) Out)

; maybe-parenthesised operand
(assert (forall ((sd (Array Str Bool)) (sv (Array Str Str)) (m Int) (x Node) (o Out))
  (! (= (WMP sd sv m x o)
        (ite (bareOK (strip x)) (W sd sv m (strip x) o) (OByte (W sd sv m (strip x) (OByte o 40)) 41)))
     :pattern ((WMP sd sv m x o)))))
; operand of a unary sign or of an index: additionally, a signed operand is parenthesised
; (- -b would open an SQL comment; -a[1] would index before negating)
(assert (forall ((sd (Array Str Bool)) (sv (Array Str Str)) (m Int) (x Node) (o Out))
  (! (= (WMPu sd sv m x o)
        (ite ((_ is mk_UnaryExpr) (strip x)) (OByte (W sd sv m (strip x) (OByte o 40)) 41) (WMP sd sv m x o)))
     :pattern ((WMPu sd sv m x o)))))

; parentheses in the source only change grouping
(assert (forall ((sd (Array Str Bool)) (sv (Array Str Str)) (m Int) (lp Span) (x Node) (rp Span) (o Out))
  (! (= (W sd sv m (mk_ParenExpr lp x rp) o) (W sd sv m x o)) :pattern ((W sd sv m (mk_ParenExpr lp x rp) o)))))

; identifiers: a single unquoted name bound in the scope is replaced by its value, then the
; built-in constants, otherwise the quoted dotted path
(assert (forall ((parts Seq_Node) (i Int) (o Out))
  (! (= (Wparts parts i o)
        (ite (>= i (Seq_Node.len parts)) o
             (Wparts parts (+ i 1) (QI (Ident.Name (Seq_Node.nth parts i)) (ite (> i 0) (OByte o 46) o)))))
     :pattern ((Wparts parts i o)))))
(assert (forall ((sd (Array Str Bool)) (sv (Array Str Str)) (m Int) (parts Seq_Node) (o Out))
  (! (= (W sd sv m (mk_QualifiedIdent parts) o)
        (ite (and (= (Seq_Node.len parts) 1) (not (Ident.Quoted (Seq_Node.nth parts 0))) (select sd (Ident.Name (Seq_Node.nth parts 0))))
             (OStr o (select sv (Ident.Name (Seq_Node.nth parts 0))))
        (ite (and (= (Seq_Node.len parts) 1) (not (Ident.Quoted (Seq_Node.nth parts 0))) (isBuiltinName (Ident.Name (Seq_Node.nth parts 0))))
             (OStr o (builtinSQL (Ident.Name (Seq_Node.nth parts 0))))
             (Wparts parts 0 o))))
     :pattern ((W sd sv m (mk_QualifiedIdent parts) o)))))

; literals: numbers verbatim (normalised decimal spelling), strings quoted
(assert (forall ((sd (Array Str Bool)) (sv (Array Str Str)) (m Int) (vs Span) (k Int) (v Str) (o Out))
  (! (= (W sd sv m (mk_BasicLit vs k v) o) (ite (= k TokenNumber) (OStr o v) (QS v o)))
     :pattern ((W sd sv m (mk_BasicLit vs k v) o)))))

; unary sign
(assert (forall ((sd (Array Str Bool)) (sv (Array Str Str)) (m Int) (os Span) (op Int) (x Node) (o Out))
  (! (= (W sd sv m (mk_UnaryExpr os op x) o) (WMPu sd sv m x (OByte o (ite (= op TokenPlus) 43 45))))
     :pattern ((W sd sv m (mk_UnaryExpr os op x) o)))))

; binary operators
(assert (forall ((sd (Array Str Bool)) (sv (Array Str Str)) (m Int) (x Node) (os Span) (op Int) (y Node) (o Out))
  (! (= (W sd sv m (mk_BinaryExpr x os op y) o)
      (ite (= op TokenEq)
           (ite (and (= m 1) (or (hasLeft x) (hasLeft y)) (or (hasRight x) (hasRight y)))
                (WMP sd sv m y (O+ (WMP sd sv m x o) " = "))
                (O+ (WMP sd sv m y (O+ (WMP sd sv m x (O+ o "coalesce(")) " = ")) ", FALSE)"))
      (ite (= op TokenNE)
           (O+ (WMP sd sv m y (O+ (WMP sd sv m x (O+ o "coalesce(")) " <> ")) ", FALSE)")
      (ite (= op TokenCaseInsensitiveEq)
           (O+ (W sd sv m y (O+ (W sd sv m x (O+ o "lower(")) ") = lower(")) ")")
      (ite (= op TokenCaseInsensitiveNE)
           (O+ (W sd sv m y (O+ (W sd sv m x (O+ o "lower(")) ") <> lower(")) ")")
           (WMP sd sv m y (OByte (OStr (OByte (WMP sd sv m x o) 32) (binopSQL op)) 32)))))))
     :pattern ((W sd sv m (mk_BinaryExpr x os op y) o)))))

; in
(assert (forall ((sd (Array Str Bool)) (sv (Array Str Str)) (m Int) (l Seq_Node) (i Int) (o Out))
  (! (= (WMPlist sd sv m l i o)
        (ite (>= i (Seq_Node.len l)) o
             (WMPlist sd sv m l (+ i 1) (WMP sd sv m (Seq_Node.nth l i) (ite (> i 0) (O+ o ", ") o)))))
     :pattern ((WMPlist sd sv m l i o)))))
(assert (forall ((sd (Array Str Bool)) (sv (Array Str Str)) (m Int) (x Node) (in Span) (lp Span) (vals Seq_Node) (rp Span) (o Out))
  (! (= (W sd sv m (mk_InExpr x in lp vals rp) o)
        (OByte (WMPlist sd sv m vals 0 (O+ (WMP sd sv m x o) " IN (")) 41))
     :pattern ((W sd sv m (mk_InExpr x in lp vals rp) o)))))

; index
(assert (forall ((sd (Array Str Bool)) (sv (Array Str Str)) (m Int) (x Node) (lb Span) (idx Node) (rb Span) (o Out))
  (! (= (W sd sv m (mk_IndexExpr x lb idx rb) o)
        (OByte (W sd sv m idx (OByte (WMPu sd sv m x o) 91)) 93))
     :pattern ((W sd sv m (mk_IndexExpr x lb idx rb) o)))))

; calls
(assert (forall ((sd (Array Str Bool)) (sv (Array Str Str)) (m Int) (l Seq_Node) (i Int) (o Out))
  (! (= (Wlist sd sv m l i o)
        (ite (>= i (Seq_Node.len l)) o
             (Wlist sd sv m l (+ i 1) (W sd sv m (Seq_Node.nth l i) (ite (> i 0) (O+ o ", ") o)))))
     :pattern ((Wlist sd sv m l i o)))))
; strcat: a1 || a2 || ... (i counts from 1; the first operand is written by Wcall)
(assert (forall ((sd (Array Str Bool)) (sv (Array Str Str)) (m Int) (l Seq_Node) (i Int) (o Out))
  (! (= (Wcat sd sv m l i o)
        (ite (>= i (Seq_Node.len l)) o
             (Wcat sd sv m l (+ i 1) (WMP sd sv m (Seq_Node.nth l i) (O+ o " || ")))))
     :pattern ((Wcat sd sv m l i o)))))
(assert (forall ((sd (Array Str Bool)) (sv (Array Str Str)) (m Int) (k Str) (a Seq_Node) (o Out))
  (! (= (Wcall sd sv m k a o)
      (ite (= k "not") (WMP sd sv m (Seq_Node.nth a 0) (O+ o "NOT "))
      (ite (= k "isnull") (O+ (WMP sd sv m (Seq_Node.nth a 0) o) " IS NULL")
      (ite (= k "isnotnull") (O+ (WMP sd sv m (Seq_Node.nth a 0) o) " IS NOT NULL")
      (ite (= k "strcat") (Wcat sd sv m a 1 (WMP sd sv m (Seq_Node.nth a 0) o))
      (ite (= k "count") (O+ o "count()")
      (ite (= k "now") (O+ o "CURRENT_TIMESTAMP")
      (ite (= k "countif") (O+ (W sd sv m (Seq_Node.nth a 0) (O+ o "count() FILTER (WHERE ")) ")")
      (ite (or (= k "iff") (= k "iif"))
           (O+ (W sd sv m (Seq_Node.nth a 2) (O+ (W sd sv m (Seq_Node.nth a 1) (O+ (W sd sv m (Seq_Node.nth a 0) (O+ o "CASE WHEN coalesce(")) ", FALSE) THEN ")) " ELSE ")) " END")
      (ite (= k "tolower") (O+ (W sd sv m (Seq_Node.nth a 0) (O+ o "LOWER(")) ")")
      (ite (= k "toupper") (O+ (W sd sv m (Seq_Node.nth a 0) (O+ o "UPPER(")) ")")
           ; any other function: passed through by name with its arguments intact
           (OByte (Wlist sd sv m a 0 (OByte (OStr o k) 40)) 41))))))))))))
     :pattern ((Wcall sd sv m k a o)))))
(assert (forall ((sd (Array Str Bool)) (sv (Array Str Str)) (m Int) (fn Node) (lp Span) (args Seq_Node) (rp Span) (o Out))
  (! (= (W sd sv m (mk_CallExpr fn lp args rp) o) (Wcall sd sv m (Ident.Name fn) args o))
     :pattern ((W sd sv m (mk_CallExpr fn lp args rp) o)))))

; arity rule for the documented built-ins (C13)
(define-fun arityOK ((k Str) (n Int)) Bool
  (and (=> (or (= k "not") (= k "isnull") (= k "isnotnull") (= k "tolower") (= k "toupper") (= k "countif")) (= n 1))
       (=> (or (= k "now") (= k "count")) (= n 0))
       (=> (or (= k "iff") (= k "iif")) (= n 3))
       (=> (= k "strcat") (>= n 1))))

; stripping keeps well-formedness and does not increase the height
(lemma strip-wf :induction x (forall ((x Node)) (! (=> (exprWF x) (and (exprWF (strip x)) (not ((_ is mk_ParenExpr) (strip x))) (<= (height (strip x)) (height x)))) :pattern ((strip x)))))
(lemma W-strip :induction x (forall ((sd (Array Str Bool)) (sv (Array Str Str)) (m Int) (x Node) (o Out)) (! (= (W sd sv m (strip x) o) (W sd sv m x o)) :pattern ((W sd sv m (strip x) o)))))
