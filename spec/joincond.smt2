; Join conditions (C03): a bare column k means $left.k == $right.k; several conditions are AND-ed.
(module-uses consts height expr)

; ---- join condition: a bare column k means $left.k == $right.k; several conditions are AND-ed
(define-fun span0 () Span (mk_Span 0 0))
(define-fun aliasIdent ((alias Str)) Node (mk_Ident alias span0 false))
(define-fun isSimpleCond ((c Node)) Bool
  (and ((_ is mk_QualifiedIdent) c) (= (Seq_Node.len (QualifiedIdent.Parts c)) 1)
       (not (Ident.Quoted (Seq_Node.nth (QualifiedIdent.Parts c) 0)))
       (not (isBuiltinName (Ident.Name (Seq_Node.nth (QualifiedIdent.Parts c) 0))))))
(define-fun sidePath ((alias Str) (id Node)) Node
  (mk_QualifiedIdent (Seq_Node.snoc (Seq_Node.snoc Seq_Node.empty (aliasIdent alias)) id)))
(define-fun rewriteCond ((c Node)) Node
  (ite (isSimpleCond c)
       (mk_BinaryExpr (sidePath "$left" (Seq_Node.nth (QualifiedIdent.Parts c) 0)) span0 TokenEq (sidePath "$right" (Seq_Node.nth (QualifiedIdent.Parts c) 0)))
       c))
(define-fun trueCond () Node (mk_QualifiedIdent (Seq_Node.snoc Seq_Node.empty (mk_Ident "true" span0 false))))
; the first k conditions, AND-ed left to right (k >= 1)
(define-fun-rec JC ((l Seq_Node) (k Int)) Node
  (ite (<= k 1) (rewriteCond (Seq_Node.nth l 0))
       (mk_BinaryExpr (JC l (- k 1)) span0 TokenAnd (rewriteCond (Seq_Node.nth l (- k 1))))))
(define-fun JoinCond ((l Seq_Node)) Node (ite (= (Seq_Node.len l) 0) trueCond (JC l (Seq_Node.len l))))


; join conditions stay well-formed under the rewrite
(lemma JC-wf :induction k :lower 1 (forall ((l Seq_Node) (k Int)) (! (=> (and (exprWFL l (Seq_Node.len l)) (<= 1 k) (<= k (Seq_Node.len l))) (exprWF (JC l k))) :pattern ((JC l k)))))
(lemma trueCond-wf (exprWF trueCond))
(lemma JoinCond-wf (forall ((l Seq_Node)) (! (=> (exprWFL l (Seq_Node.len l)) (exprWF (JoinCond l))) :pattern ((JoinCond l)))))
