; C04, decoding under the lexical rules of the target dialect.  The statement asks that a quoted token decode
; to exactly the value written in PQL under the standard quoting rule (a doubled quote is one quote) AND under
; the ClickHouse/MySQL rule (a backslash escapes the next byte).  A token written by doubling quotes reads the
; same under both rules only if it contains no backslash: nbs(o) counts the backslash bytes of builder content o,
; and the quoting functions owe nbs(after) == nbs(before).
(module-uses consts)
(declare-fun bsIn (Str) Int)
(assert (forall ((s Str)) (! (>= (bsIn s) 0) :pattern ((bsIn s)))))
(declare-fun nbs (Out) Int)
(assert (= (nbs OEmpty) 0))
(assert (forall ((o Out) (b Int)) (! (= (nbs (OByte o b)) (+ (nbs o) (ite (= b 92) 1 0))) :pattern ((nbs (OByte o b))))))
(assert (forall ((o Out) (s Str)) (! (= (nbs (OStr o s)) (+ (nbs o) (bsIn s))) :pattern ((nbs (OStr o s))))))
(assert (forall ((o Out) (r Int)) (! (= (nbs (ORune o r)) (+ (nbs o) (ite (= r 92) 1 0))) :pattern ((nbs (ORune o r))))))
