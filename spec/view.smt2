; The plan denoted by the subquery objects on the heap, and predicates about the references.
; Functions that verify code against Split see this module through its proved lemmas only (hide view):
; the recursive definitions are not needed there and E-matching would loop through them.
(module-uses consts spanof)

(declare-datatypes ((Sub 0)) (((mk_Sub (Sub.name Str) (Sub.src Str) (Sub.op Node) (Sub.sort Node) (Sub.take Node)))))
(declare-seq Seq_Sub Sub)

(define-fun nilSort () Node (nilp tag.SortOperator))
(define-fun nilTake () Node (nilp tag.TakeOperator))
(define-fun lastSub ((p Seq_Sub)) Sub (Seq_Sub.nth p (- (Seq_Sub.len p) 1)))
(define-fun initSub ((p Seq_Sub)) Seq_Sub (Seq_Sub.slice p 0 (- (Seq_Sub.len p) 1)))
; ---- view of the heap: the plan denoted by the subquery objects dst[0..n)
(define-fun subAt ((Hn (Array Int Str)) (Hs (Array Int Str)) (Ho (Array Int Node)) (Hso (Array Int Node)) (Ht (Array Int Node)) (r Int)) Sub
  (mk_Sub (select Hn r) (select Hs r) (select Ho r) (select Hso r) (select Ht r)))
(define-fun-rec viewL ((Hn (Array Int Str)) (Hs (Array Int Str)) (Ho (Array Int Node)) (Hso (Array Int Node)) (Ht (Array Int Node)) (d Seq_Int) (n Int)) Seq_Sub
  (ite (<= n 0) Seq_Sub.empty (Seq_Sub.snoc (viewL Hn Hs Ho Hso Ht d (- n 1)) (subAt Hn Hs Ho Hso Ht (Seq_Int.nth d (- n 1))))))
; the references dst[0..n) are below a, pairwise distinct, and do not contain r
(define-fun-rec allBelow ((d Seq_Int) (n Int) (a Int)) Bool
  (ite (<= n 0) true (and (allBelow d (- n 1) a) (< 0 (Seq_Int.nth d (- n 1))) (< (Seq_Int.nth d (- n 1)) a))))
(define-fun-rec notIn ((d Seq_Int) (n Int) (r Int)) Bool
  (ite (<= n 0) true (and (notIn d (- n 1) r) (not (= (Seq_Int.nth d (- n 1)) r)))))
(define-fun-rec distinctL ((d Seq_Int) (n Int)) Bool
  (ite (<= n 0) true (and (distinctL d (- n 1)) (notIn d (- n 1) (Seq_Int.nth d (- n 1))))))

(lemma viewL-len :induction n
  (forall ((Hn (Array Int Str)) (Hs (Array Int Str)) (Ho (Array Int Node)) (Hso (Array Int Node)) (Ht (Array Int Node)) (d Seq_Int) (n Int))
    (! (= (Seq_Sub.len (viewL Hn Hs Ho Hso Ht d n)) (ite (<= n 0) 0 n)) :pattern ((viewL Hn Hs Ho Hso Ht d n)))))
(lemma viewL-nth :induction n
  (forall ((Hn (Array Int Str)) (Hs (Array Int Str)) (Ho (Array Int Node)) (Hso (Array Int Node)) (Ht (Array Int Node)) (d Seq_Int) (n Int) (i Int))
    (! (=> (and (<= 0 i) (< i n)) (= (Seq_Sub.nth (viewL Hn Hs Ho Hso Ht d n) i) (subAt Hn Hs Ho Hso Ht (Seq_Int.nth d i))))
       :pattern ((Seq_Sub.nth (viewL Hn Hs Ho Hso Ht d n) i)))))
(lemma viewL-snoc :induction n
  (forall ((Hn (Array Int Str)) (Hs (Array Int Str)) (Ho (Array Int Node)) (Hso (Array Int Node)) (Ht (Array Int Node)) (d Seq_Int) (r Int) (n Int))
    (! (=> (<= n (Seq_Int.len d)) (= (viewL Hn Hs Ho Hso Ht (Seq_Int.snoc d r) n) (viewL Hn Hs Ho Hso Ht d n)))
       :pattern ((viewL Hn Hs Ho Hso Ht (Seq_Int.snoc d r) n)))))
(lemma allBelow-notIn :induction n
  (forall ((d Seq_Int) (n Int) (a Int) (r Int))
    (! (=> (and (allBelow d n a) (>= r a)) (notIn d n r)) :pattern ((allBelow d n a) (notIn d n r)))))
(lemma allBelow-mono :induction n
  (forall ((d Seq_Int) (n Int) (a Int) (b Int))
    (! (=> (and (allBelow d n a) (<= a b)) (allBelow d n b)) :pattern ((allBelow d n a) (allBelow d n b)))))
(lemma allBelow-snoc :induction n
  (forall ((d Seq_Int) (r Int) (n Int) (a Int))
    (! (=> (<= n (Seq_Int.len d)) (= (allBelow (Seq_Int.snoc d r) n a) (allBelow d n a))) :pattern ((allBelow (Seq_Int.snoc d r) n a)))))
(lemma notIn-snoc :induction n
  (forall ((d Seq_Int) (x Int) (n Int) (r Int))
    (! (=> (<= n (Seq_Int.len d)) (= (notIn (Seq_Int.snoc d x) n r) (notIn d n r))) :pattern ((notIn (Seq_Int.snoc d x) n r)))))
(lemma distinctL-snoc :induction n
  (forall ((d Seq_Int) (x Int) (n Int))
    (! (=> (<= n (Seq_Int.len d)) (= (distinctL (Seq_Int.snoc d x) n) (distinctL d n))) :pattern ((distinctL (Seq_Int.snoc d x) n)))))
(lemma allBelow-nth :induction n
  (forall ((d Seq_Int) (n Int) (a Int) (i Int))
    (! (=> (and (allBelow d n a) (<= 0 i) (< i n)) (and (< 0 (Seq_Int.nth d i)) (< (Seq_Int.nth d i) a))) :pattern ((allBelow d n a) (Seq_Int.nth d i)))))
; frame: a store at a reference that is not among dst[0..n) does not change the view (one lemma per field heap)
(lemma viewL-frame-name :induction n
  (forall ((Hn (Array Int Str)) (Hs (Array Int Str)) (Ho (Array Int Node)) (Hso (Array Int Node)) (Ht (Array Int Node)) (d Seq_Int) (n Int) (r Int) (v Str))
    (! (=> (notIn d n r) (= (viewL (store Hn r v) Hs Ho Hso Ht d n) (viewL Hn Hs Ho Hso Ht d n))) :pattern ((viewL (store Hn r v) Hs Ho Hso Ht d n)))))
(lemma viewL-frame-src :induction n
  (forall ((Hn (Array Int Str)) (Hs (Array Int Str)) (Ho (Array Int Node)) (Hso (Array Int Node)) (Ht (Array Int Node)) (d Seq_Int) (n Int) (r Int) (v Str))
    (! (=> (notIn d n r) (= (viewL Hn (store Hs r v) Ho Hso Ht d n) (viewL Hn Hs Ho Hso Ht d n))) :pattern ((viewL Hn (store Hs r v) Ho Hso Ht d n)))))
(lemma viewL-frame-op :induction n
  (forall ((Hn (Array Int Str)) (Hs (Array Int Str)) (Ho (Array Int Node)) (Hso (Array Int Node)) (Ht (Array Int Node)) (d Seq_Int) (n Int) (r Int) (v Node))
    (! (=> (notIn d n r) (= (viewL Hn Hs (store Ho r v) Hso Ht d n) (viewL Hn Hs Ho Hso Ht d n))) :pattern ((viewL Hn Hs (store Ho r v) Hso Ht d n)))))
(lemma viewL-frame-sort :induction n
  (forall ((Hn (Array Int Str)) (Hs (Array Int Str)) (Ho (Array Int Node)) (Hso (Array Int Node)) (Ht (Array Int Node)) (d Seq_Int) (n Int) (r Int) (v Node))
    (! (=> (notIn d n r) (= (viewL Hn Hs Ho (store Hso r v) Ht d n) (viewL Hn Hs Ho Hso Ht d n))) :pattern ((viewL Hn Hs Ho (store Hso r v) Ht d n)))))
(lemma viewL-frame-take :induction n
  (forall ((Hn (Array Int Str)) (Hs (Array Int Str)) (Ho (Array Int Node)) (Hso (Array Int Node)) (Ht (Array Int Node)) (d Seq_Int) (n Int) (r Int) (v Node))
    (! (=> (notIn d n r) (= (viewL Hn Hs Ho Hso (store Ht r v) d n) (viewL Hn Hs Ho Hso Ht d n))) :pattern ((viewL Hn Hs Ho Hso (store Ht r v) d n)))))
; one-step forms for appending a fresh reference (n is written as the length of the extended sequence,
; the form in which it occurs in verification conditions)
(lemma allBelow-append
  (forall ((d Seq_Int) (x Int) (a Int) (b Int))
    (! (=> (and (allBelow d (Seq_Int.len d) a) (<= a b) (< 0 x) (< x b)) (allBelow (Seq_Int.snoc d x) (Seq_Int.len (Seq_Int.snoc d x)) b))
       :pattern ((allBelow (Seq_Int.snoc d x) (Seq_Int.len (Seq_Int.snoc d x)) b) (allBelow d (Seq_Int.len d) a)))))
(lemma distinctL-append
  (forall ((d Seq_Int) (x Int) (a Int))
    (! (=> (and (distinctL d (Seq_Int.len d)) (allBelow d (Seq_Int.len d) a) (>= x a)) (distinctL (Seq_Int.snoc d x) (Seq_Int.len (Seq_Int.snoc d x))))
       :pattern ((distinctL (Seq_Int.snoc d x) (Seq_Int.len (Seq_Int.snoc d x))) (allBelow d (Seq_Int.len d) a)))))
(lemma viewL-append
  (forall ((Hn (Array Int Str)) (Hs (Array Int Str)) (Ho (Array Int Node)) (Hso (Array Int Node)) (Ht (Array Int Node)) (d Seq_Int) (r Int))
    (! (= (viewL Hn Hs Ho Hso Ht (Seq_Int.snoc d r) (Seq_Int.len (Seq_Int.snoc d r)))
          (Seq_Sub.snoc (viewL Hn Hs Ho Hso Ht d (Seq_Int.len d)) (subAt Hn Hs Ho Hso Ht r)))
       :pattern ((viewL Hn Hs Ho Hso Ht (Seq_Int.snoc d r) (Seq_Int.len (Seq_Int.snoc d r)))))))
; attaching ORDER BY / LIMIT to the last subquery: a store at r = dst[len-1] replaces the last element of the view
(lemma viewL-setlast-sort
  (forall ((Hn (Array Int Str)) (Hs (Array Int Str)) (Ho (Array Int Node)) (Hso (Array Int Node)) (Ht (Array Int Node)) (d Seq_Int) (r Int) (v Node))
    (! (=> (and (> (Seq_Int.len d) 0) (distinctL d (Seq_Int.len d)) (= r (Seq_Int.nth d (- (Seq_Int.len d) 1))))
           (= (viewL Hn Hs Ho (store Hso r v) Ht d (Seq_Int.len d))
              (Seq_Sub.snoc (Seq_Sub.slice (viewL Hn Hs Ho Hso Ht d (Seq_Int.len d)) 0 (- (Seq_Int.len d) 1))
                            (subAt Hn Hs Ho (store Hso r v) Ht r))))
       :pattern ((viewL Hn Hs Ho (store Hso r v) Ht d (Seq_Int.len d))))))
(lemma viewL-setlast-take
  (forall ((Hn (Array Int Str)) (Hs (Array Int Str)) (Ho (Array Int Node)) (Hso (Array Int Node)) (Ht (Array Int Node)) (d Seq_Int) (r Int) (v Node))
    (! (=> (and (> (Seq_Int.len d) 0) (distinctL d (Seq_Int.len d)) (= r (Seq_Int.nth d (- (Seq_Int.len d) 1))))
           (= (viewL Hn Hs Ho Hso (store Ht r v) d (Seq_Int.len d))
              (Seq_Sub.snoc (Seq_Sub.slice (viewL Hn Hs Ho Hso Ht d (Seq_Int.len d)) 0 (- (Seq_Int.len d) 1))
                            (subAt Hn Hs Ho Hso (store Ht r v) r))))
       :pattern ((viewL Hn Hs Ho Hso (store Ht r v) d (Seq_Int.len d))))))
; frame for a store at a fresh reference (at or above a bound that all of dst[0..n) lie below)
(lemma viewL-fresh-name
  (forall ((Hn (Array Int Str)) (Hs (Array Int Str)) (Ho (Array Int Node)) (Hso (Array Int Node)) (Ht (Array Int Node)) (d Seq_Int) (n Int) (r Int) (v Str) (a Int))
    (! (=> (and (allBelow d n a) (>= r a)) (= (viewL (store Hn r v) Hs Ho Hso Ht d n) (viewL Hn Hs Ho Hso Ht d n)))
       :pattern ((viewL (store Hn r v) Hs Ho Hso Ht d n) (allBelow d n a)))))
(lemma viewL-fresh-src
  (forall ((Hn (Array Int Str)) (Hs (Array Int Str)) (Ho (Array Int Node)) (Hso (Array Int Node)) (Ht (Array Int Node)) (d Seq_Int) (n Int) (r Int) (v Str) (a Int))
    (! (=> (and (allBelow d n a) (>= r a)) (= (viewL Hn (store Hs r v) Ho Hso Ht d n) (viewL Hn Hs Ho Hso Ht d n)))
       :pattern ((viewL Hn (store Hs r v) Ho Hso Ht d n) (allBelow d n a)))))
(lemma viewL-fresh-op
  (forall ((Hn (Array Int Str)) (Hs (Array Int Str)) (Ho (Array Int Node)) (Hso (Array Int Node)) (Ht (Array Int Node)) (d Seq_Int) (n Int) (r Int) (v Node) (a Int))
    (! (=> (and (allBelow d n a) (>= r a)) (= (viewL Hn Hs (store Ho r v) Hso Ht d n) (viewL Hn Hs Ho Hso Ht d n)))
       :pattern ((viewL Hn Hs (store Ho r v) Hso Ht d n) (allBelow d n a)))))
(lemma viewL-fresh-sort
  (forall ((Hn (Array Int Str)) (Hs (Array Int Str)) (Ho (Array Int Node)) (Hso (Array Int Node)) (Ht (Array Int Node)) (d Seq_Int) (n Int) (r Int) (v Node) (a Int))
    (! (=> (and (allBelow d n a) (>= r a)) (= (viewL Hn Hs Ho (store Hso r v) Ht d n) (viewL Hn Hs Ho Hso Ht d n)))
       :pattern ((viewL Hn Hs Ho (store Hso r v) Ht d n) (allBelow d n a)))))
(lemma viewL-fresh-take
  (forall ((Hn (Array Int Str)) (Hs (Array Int Str)) (Ho (Array Int Node)) (Hso (Array Int Node)) (Ht (Array Int Node)) (d Seq_Int) (n Int) (r Int) (v Node) (a Int))
    (! (=> (and (allBelow d n a) (>= r a)) (= (viewL Hn Hs Ho Hso (store Ht r v) d n) (viewL Hn Hs Ho Hso Ht d n)))
       :pattern ((viewL Hn Hs Ho Hso (store Ht r v) d n) (allBelow d n a)))))
(lemma viewL-empty
  (forall ((Hn (Array Int Str)) (Hs (Array Int Str)) (Ho (Array Int Node)) (Hso (Array Int Node)) (Ht (Array Int Node)) (d Seq_Int))
    (! (= (viewL Hn Hs Ho Hso Ht d 0) Seq_Sub.empty) :pattern ((viewL Hn Hs Ho Hso Ht d 0)))))
(lemma allBelow-empty (forall ((d Seq_Int) (a Int)) (! (allBelow d 0 a) :pattern ((allBelow d 0 a)))))
(lemma distinctL-empty (forall ((d Seq_Int)) (! (distinctL d 0) :pattern ((distinctL d 0)))))
