; Well-formedness of expression trees (Appendix D): what the parser establishes and the compiler relies on.
(module-uses consts height spanof)

(define-fun binopKnown ((op Int)) Bool
  (or (= op TokenAnd) (= op TokenOr) (= op TokenPlus) (= op TokenMinus) (= op TokenStar) (= op TokenSlash)
      (= op TokenMod) (= op TokenLT) (= op TokenLE) (= op TokenGT) (= op TokenGE)))

; a plain (unquoted) identifier spelling [A-Za-z_$][A-Za-z0-9_]*: the only text the compiler ever emits verbatim
; (function names of calls it does not rewrite), C04/C05
(define-fun plainStartC ((c Int)) Bool (or (and (<= 97 c) (<= c 122)) (and (<= 65 c) (<= c 90)) (= c 95) (= c 36)))
(define-fun plainContC ((c Int)) Bool (or (and (<= 97 c) (<= c 122)) (and (<= 65 c) (<= c 90)) (and (<= 48 c) (<= c 57)) (= c 95)))
(define-fun-rec plainName ((v Str)) Bool
  (and (> (Str.len v) 0) (plainStartC (Str.nth v 0))
       (forall ((i Int)) (! (=> (and (< 0 i) (< i (Str.len v))) (plainContC (Str.nth v i))) :pattern ((Str.nth v i))))))
; ---- well-formedness of expression trees the parser owes the compiler (Appendix D)
(declare-fun exprWF (Node) Bool)
(declare-fun exprWFL (Seq_Node Int) Bool)
(declare-fun identsWFL (Seq_Node Int) Bool)
(assert (forall ((l Seq_Node) (n Int)) (! (= (exprWFL l n) (ite (<= n 0) true (and (exprWFL l (- n 1)) (exprWF (Seq_Node.nth l (- n 1)))))) :pattern ((exprWFL l n)))))
(assert (forall ((l Seq_Node) (n Int)) (! (= (identsWFL l n) (ite (<= n 0) true (and (identsWFL l (- n 1)) ((_ is mk_Ident) (Seq_Node.nth l (- n 1)))))) :pattern ((identsWFL l n)))))
(assert (= (exprWF nilN) false))
(assert (forall ((t Int)) (! (= (exprWF (nilp t)) false) :pattern ((exprWF (nilp t))))))
(assert (forall ((parts Seq_Node)) (! (= (exprWF (mk_QualifiedIdent parts)) (and (> (Seq_Node.len parts) 0) (identsWFL parts (Seq_Node.len parts)))) :pattern ((exprWF (mk_QualifiedIdent parts))))))
(assert (forall ((vs Span) (k Int) (v Str)) (! (= (exprWF (mk_BasicLit vs k v)) (or (= k TokenNumber) (= k TokenString))) :pattern ((exprWF (mk_BasicLit vs k v))))))
(assert (forall ((os Span) (op Int) (x Node)) (! (= (exprWF (mk_UnaryExpr os op x)) (and (or (= op TokenPlus) (= op TokenMinus)) (exprWF x))) :pattern ((exprWF (mk_UnaryExpr os op x))))))
(assert (forall ((x Node) (os Span) (op Int) (y Node)) (! (= (exprWF (mk_BinaryExpr x os op y))
   (and (exprWF x) (exprWF y) (or (binopKnown op) (= op TokenEq) (= op TokenNE) (= op TokenCaseInsensitiveEq) (= op TokenCaseInsensitiveNE)))) :pattern ((exprWF (mk_BinaryExpr x os op y))))))
(assert (forall ((x Node) (in Span) (lp Span) (vals Seq_Node) (rp Span)) (! (= (exprWF (mk_InExpr x in lp vals rp)) (and (exprWF x) (exprWFL vals (Seq_Node.len vals)))) :pattern ((exprWF (mk_InExpr x in lp vals rp))))))
(assert (forall ((lp Span) (x Node) (rp Span)) (! (= (exprWF (mk_ParenExpr lp x rp)) (exprWF x)) :pattern ((exprWF (mk_ParenExpr lp x rp))))))
(assert (forall ((fn Node) (lp Span) (args Seq_Node) (rp Span)) (! (= (exprWF (mk_CallExpr fn lp args rp)) (and ((_ is mk_Ident) fn) (not (Ident.Quoted fn)) (plainName (Ident.Name fn)) (exprWFL args (Seq_Node.len args)))) :pattern ((exprWF (mk_CallExpr fn lp args rp))))))
(assert (forall ((x Node) (lb Span) (idx Node) (rb Span)) (! (= (exprWF (mk_IndexExpr x lb idx rb)) (and (exprWF x) (exprWF idx))) :pattern ((exprWF (mk_IndexExpr x lb idx rb))))))
; only the eight expression node types are expressions
(assert (forall ((n Node)) (! (=> (exprWF n) (or ((_ is mk_QualifiedIdent) n) ((_ is mk_BasicLit) n) ((_ is mk_UnaryExpr) n) ((_ is mk_BinaryExpr) n) ((_ is mk_InExpr) n) ((_ is mk_ParenExpr) n) ((_ is mk_CallExpr) n) ((_ is mk_IndexExpr) n))) :pattern ((exprWF n)))))
(lemma exprWFL-nth :induction n (forall ((l Seq_Node) (n Int) (i Int)) (! (=> (and (exprWFL l n) (<= 0 i) (< i n)) (exprWF (Seq_Node.nth l i))) :pattern ((exprWFL l n) (Seq_Node.nth l i)))))
(lemma identsWFL-nth :induction n (forall ((l Seq_Node) (n Int) (i Int)) (! (=> (and (identsWFL l n) (<= 0 i) (< i n)) ((_ is mk_Ident) (Seq_Node.nth l i))) :pattern ((identsWFL l n) (Seq_Node.nth l i)))))
(lemma identsWFL-spanSafe :induction n (forall ((l Seq_Node) (n Int)) (! (=> (identsWFL l n) (spanSafeList l n)) :pattern ((identsWFL l n) (spanSafeList l n)))))
(lemma identsWFL-snoc :induction n (forall ((l Seq_Node) (x Node) (n Int)) (! (=> (<= n (Seq_Node.len l)) (= (identsWFL (Seq_Node.snoc l x) n) (identsWFL l n))) :pattern ((identsWFL (Seq_Node.snoc l x) n)))))
(lemma exprWFL-snoc :induction n (forall ((l Seq_Node) (x Node) (n Int)) (! (=> (<= n (Seq_Node.len l)) (= (exprWFL (Seq_Node.snoc l x) n) (exprWFL l n))) :pattern ((exprWFL (Seq_Node.snoc l x) n)))))

(define-fun spanIn ((source Str) (x Node)) Bool (and (spanValid (SpanOf x)) (<= (Span.End (SpanOf x)) (Str.len source))))
; a literal row count must be an integer literal (C13); any other expression is accepted
(define-fun rowCountOK ((x Node)) Bool
  (=> ((_ is mk_BasicLit) x) (and (= (BasicLit.Kind x) TokenNumber) (not (strings.ContainsAny (BasicLit.Value x) ".eE")))))
