; Expressions as the parser delivers them (C07/C08/C10): well-formed, span-safe, inside the source, of the prescribed shape.
(module-uses consts height spanof exprwf perr shape)

; ---- expressions as the parser delivers them: well-formed, span-safe, with a valid span inside the source
(define-fun-rec exprOK ((s Str) (x Node)) Bool (and (exprWF x) (spanSafe x) (spanIn s x) (shapeOK x) (walkWF x) (bracketsOK x)))
(define-fun-rec exprsOK ((s Str) (l Seq_Node) (n Int)) Bool
  (ite (<= n 0) true (and (exprsOK s l (- n 1)) (exprOK s (Seq_Node.nth l (- n 1))))))
(lemma exprsOK-parts :induction n (forall ((s Str) (l Seq_Node) (n Int)) (! (=> (exprsOK s l n) (and (exprWFL l n) (spanSafeList l n) (spansInL (Str.len s) l n) (shapeOKList l n) (walkWFL l n) (bracketsOKList l n))) :pattern ((exprsOK s l n)))))
(lemma exprsOK-snoc :induction n (forall ((s Str) (l Seq_Node) (x Node) (n Int)) (! (=> (<= n (Seq_Node.len l)) (= (exprsOK s (Seq_Node.snoc l x) n) (exprsOK s l n))) :pattern ((exprsOK s (Seq_Node.snoc l x) n)))))
(lemma exprsOK-nth :induction n (forall ((s Str) (l Seq_Node) (n Int) (i Int)) (! (=> (and (exprsOK s l n) (<= 0 i) (< i n)) (exprOK s (Seq_Node.nth l i))) :pattern ((exprsOK s l n) (Seq_Node.nth l i)))))
(define-fun identOK ((s Str) (id Node)) Bool (and ((_ is mk_Ident) id) (spanValid (Ident.NameSpan id)) (<= (Span.End (Ident.NameSpan id)) (Str.len s))))
(define-fun-rec identsOK ((s Str) (l Seq_Node) (n Int)) Bool
  (ite (<= n 0) true (and (identsOK s l (- n 1)) (identOK s (Seq_Node.nth l (- n 1))))))
(lemma identsOK-parts :induction n (forall ((s Str) (l Seq_Node) (n Int)) (! (=> (identsOK s l n) (and (identsWFL l n) (spanSafeList l n) (spansInL (Str.len s) l n) (shapeOKList l n) (walkWFL l n) (bracketsOKList l n))) :pattern ((identsOK s l n)))))
(lemma identsOK-snoc :induction n (forall ((s Str) (l Seq_Node) (x Node) (n Int)) (! (=> (<= n (Seq_Node.len l)) (= (identsOK s (Seq_Node.snoc l x) n) (identsOK s l n))) :pattern ((identsOK s (Seq_Node.snoc l x) n)))))
(lemma identsOK-first (forall ((s Str) (l Seq_Node) (n Int)) (! (=> (and (identsOK s l n) (> n 0)) (spanValid (SpanOfList l n))) :pattern ((identsOK s l n) (SpanOfList l n)))))

