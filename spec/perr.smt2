; Parser vocabulary (C07/C08/C12): the not-found classifier of errors, the parser cursor, tokens in range.
(module-uses consts height spanof exprwf)

; nf(err): errors.As(err, *notFoundError) -- walks Unwrap chains (parseError, compileError) and the
; members of a join; opaqueError has no Unwrap, so wrapping in it hides a not-found error
(declare-fun nf (Err) Bool)
(declare-fun nfL (Seq_Err Int) Bool)
(assert (= (nf ErrNil) false))
(assert (forall ((t Int)) (! (= (nf (nilpE t)) false) :pattern ((nf (nilpE t))))))
(assert (forall ((i Int)) (! (= (nf (EOther i)) false) :pattern ((nf (EOther i))))))
(assert (forall ((s Str) (sp Span) (e Err)) (! (= (nf (mk_parseError s sp e)) (nf e)) :pattern ((nf (mk_parseError s sp e))))))
(assert (forall ((s Str) (sp Span) (e Err)) (! (= (nf (mk_compileError s sp e)) (nf e)) :pattern ((nf (mk_compileError s sp e))))))
(assert (forall ((e Err)) (! (= (nf (mk_notFoundError e)) true) :pattern ((nf (mk_notFoundError e))))))
(assert (forall ((e Err)) (! (= (nf (mk_opaqueError e)) false) :pattern ((nf (mk_opaqueError e))))))
(assert (forall ((l Seq_Err)) (! (= (nf (EJoin l)) (nfL l (Seq_Err.len l))) :pattern ((nf (EJoin l))))))
(assert (forall ((l Seq_Err) (n Int)) (! (= (nfL l n) (ite (<= n 0) false (or (nfL l (- n 1)) (nf (Seq_Err.nth l (- n 1)))))) :pattern ((nfL l n)))))
(define-fun-rec allNilL ((l Seq_Err) (n Int)) Bool (ite (<= n 0) true (and (allNilL l (- n 1)) (= (Seq_Err.nth l (- n 1)) ErrNil))))
; no member of the first n is nil (what errors.Join keeps: (*joinError).Unwrap returns a non-empty list of non-nil errors)
(define-fun noNilL ((l Seq_Err) (n Int)) Bool (forall ((j Int)) (! (=> (and (<= 0 j) (< j n)) (not (= (Seq_Err.nth l j) ErrNil))) :pattern ((Seq_Err.nth l j)))))
; the not-found classifier over an appended list / an appended element (used by joinErrors' loop)
(lemma nfL-snoc-keep :induction n (forall ((l Seq_Err) (e Err) (n Int)) (! (=> (<= n (Seq_Err.len l)) (= (nfL (Seq_Err.snoc l e) n) (nfL l n))) :pattern ((nfL (Seq_Err.snoc l e) n)))))
(lemma nfL-cat-keep :induction n (forall ((a Seq_Err) (b Seq_Err) (n Int)) (! (=> (<= n (Seq_Err.len a)) (= (nfL (Seq_Err.cat a b) n) (nfL a n))) :pattern ((nfL (Seq_Err.cat a b) n)))))
(lemma nfL-cat :induction n (forall ((a Seq_Err) (b Seq_Err) (n Int)) (! (=> (and (<= (Seq_Err.len a) n) (<= n (+ (Seq_Err.len a) (Seq_Err.len b)))) (= (nfL (Seq_Err.cat a b) n) (or (nfL a (Seq_Err.len a)) (nfL b (- n (Seq_Err.len a)))))) :pattern ((nfL (Seq_Err.cat a b) n)))))

; the cursor: positions are compared modulo the EOF latch (next at the end sets pos = len+1)
(define-fun pOK ((pos Int) (n Int)) Bool (and (<= 0 pos) (<= pos (+ n 1))))
(define-fun cur ((pos Int) (n Int)) Int (ite (<= pos n) pos n))
; every token lies inside the source
(define-fun tokIn ((s Str) (t Token)) Bool (and (spanValid (Token.Span t)) (<= (Span.End (Token.Span t)) (Str.len s))))
(define-fun-rec toksIn ((s Str) (t Seq_Token)) Bool
  (and (forall ((j Int)) (! (=> (and (<= 0 j) (< j (Seq_Token.len t))) (and (tokIn s (Seq_Token.nth t j)) (< (Span.Start (Token.Span (Seq_Token.nth t j))) (Span.End (Token.Span (Seq_Token.nth t j)))))) :pattern ((Seq_Token.nth t j))))
       ; an identifier token carries a plain identifier spelling (Scan's token classes, C09)
       (forall ((j Int)) (! (=> (and (<= 0 j) (< j (Seq_Token.len t)) (= (Token.Kind (Seq_Token.nth t j)) TokenIdentifier)) (plainName (Token.Value (Seq_Token.nth t j)))) :pattern ((Seq_Token.nth t j))))
       ; tokens are in source order and do not overlap
       (forall ((i Int) (j Int)) (! (=> (and (<= 0 i) (< i j) (< j (Seq_Token.len t))) (<= (Span.End (Token.Span (Seq_Token.nth t i))) (Span.Start (Token.Span (Seq_Token.nth t j))))) :pattern ((Seq_Token.nth t i) (Seq_Token.nth t j))))))
(lemma toksIn-slice
  (forall ((s Str) (t Seq_Token) (a Int) (b Int))
    (! (=> (and (toksIn s t) (<= 0 a) (<= a b) (<= b (Seq_Token.len t))) (toksIn s (Seq_Token.slice t a b)))
       :pattern ((toksIn s (Seq_Token.slice t a b))))))
(define-fun eofToken ((s Str)) Token (mk_Token TokenError (mk_Span (Str.len s) (Str.len s)) "EOF"))

; binary operator precedence as the property statement gives it: or < and < comparisons, in < + - < * / %
(define-fun opPrec ((k Int)) Int
  (ite (or (= k TokenStar) (= k TokenSlash) (= k TokenMod)) 4
  (ite (or (= k TokenPlus) (= k TokenMinus)) 3
  (ite (or (= k TokenEq) (= k TokenNE) (= k TokenLT) (= k TokenLE) (= k TokenGT) (= k TokenGE)
           (= k TokenCaseInsensitiveEq) (= k TokenCaseInsensitiveNE) (= k TokenIn)) 2
  (ite (= k TokenAnd) 1 (ite (= k TokenOr) 0 (- 1)))))))
; precedence of the token under the cursor (-1 at the end)
(define-fun nextPrec ((t Seq_Token) (pos Int)) Int
  (ite (< pos (Seq_Token.len t)) (opPrec (Token.Kind (Seq_Token.nth t pos))) (- 1)))
(define-fun remTok ((pos Int) (n Int)) Int (- n (cur pos n)))
