; C16: the command-line tool as a fold over the lines of its input -- "a model that calls pql.Compile per
; statement", written from the property statement:
;   standard output is, in order, the library's SQL for each query statement compiled with all previously
;   accepted let statements in scope, each followed by a blank line; a failing statement is reported (one
;   call of the error logger) and skipped; a failed let is not added to the scope; the exit status is
;   non-zero exactly when some statement failed or the input could not be read completely; a query at the
;   end of input is treated the same whether or not a semicolon follows it.
(module-uses consts lex clidecl)
(declare-datatypes ((CliSt 0)) (((mk_CliSt (CliSt.lets Out) (CliSt.failed Bool) (CliSt.out Out) (CliSt.nerr Int)))))
(define-fun cliLets ((s CliSt)) Out (CliSt.lets s))
(define-fun cliFailed ((s CliSt)) Bool (CliSt.failed s))
(define-fun cliOut ((s CliSt)) Out (CliSt.out s))
(define-fun cliNerr ((s CliSt)) Int (CliSt.nerr s))
(define-fun linesOf ((r Any)) Seq_Str (bufio.lines r))
(define-fun readErrOf ((r Any)) Err (bufio.err r))
; a statement is a let statement when its first token is the identifier let
(define-fun isLet ((stmt Str)) Bool
  (and (> (Seq_Token.len (scanOf stmt)) 0) (= (Token.Kind (Seq_Token.nth (scanOf stmt) 0)) TokenIdentifier)
       (= (Token.Value (Seq_Token.nth (scanOf stmt) 0)) "let")))
(define-fun cliFail ((st CliSt)) CliSt (mk_CliSt (CliSt.lets st) true (CliSt.out st) (+ (CliSt.nerr st) 1)))
; one terminated statement: a let is accepted (appended to the prelude, followed by ";\n") when it compiles in
; the scope of the prelude with a placeholder query; a query is compiled with the prelude in front
(define-fun stepStmt ((st CliSt) (stmt Str)) CliSt
  (ite (isLet stmt)
       (ite (compileOK (Str.cat (Str.cat (Out.str (CliSt.lets st)) stmt) ";X"))
            (mk_CliSt (OByte (OByte (OStr (CliSt.lets st) stmt) 59) 10) (CliSt.failed st) (CliSt.out st) (CliSt.nerr st))
            (cliFail st))
       (ite (compileOK (Str.cat (Out.str (CliSt.lets st)) stmt))
            (mk_CliSt (CliSt.lets st) (CliSt.failed st)
                      (OByte (OByte (OStr (CliSt.out st) (compileSQL (Str.cat (Out.str (CliSt.lets st)) stmt))) 10) 10) (CliSt.nerr st))
            (cliFail st))))
(define-fun-rec stepStmts ((st CliSt) (ps Seq_Str) (k Int)) CliSt
  (ite (<= k 0) st (stepStmt (stepStmts st ps (- k 1)) (Seq_Str.nth ps (- k 1)))))
; text read so far that is not yet terminated by a semicolon, after i lines
(define-fun lineOut ((pend Out) (line Str)) Out (OByte (OStr pend line) 10))
(define-fun lineText ((pend Out) (line Str)) Str (Out.str (OByte (OStr pend line) 10)))
(define-fun-rec cliPend ((l Seq_Str) (i Int)) Out
  (ite (<= i 0) OEmpty
       (ite (= (Seq_Str.len (splitOf (lineText (cliPend l (- i 1)) (Seq_Str.nth l (- i 1))))) 1)
            (OByte (OStr (cliPend l (- i 1)) (Seq_Str.nth l (- i 1))) 10)
            (OStr OEmpty (Seq_Str.nth (splitOf (lineText (cliPend l (- i 1)) (Seq_Str.nth l (- i 1))))
                                      (- (Seq_Str.len (splitOf (lineText (cliPend l (- i 1)) (Seq_Str.nth l (- i 1))))) 1))))))
; state after i lines: every piece but the last is a terminated statement
(define-fun-rec cliSt ((o0 Out) (l Seq_Str) (i Int)) CliSt
  (ite (<= i 0) (mk_CliSt OEmpty false o0 0)
       (ite (= (Seq_Str.len (splitOf (lineText (cliPend l (- i 1)) (Seq_Str.nth l (- i 1))))) 1)
            (cliSt o0 l (- i 1))
            (stepStmts (cliSt o0 l (- i 1)) (splitOf (lineText (cliPend l (- i 1)) (Seq_Str.nth l (- i 1))))
                       (- (Seq_Str.len (splitOf (lineText (cliPend l (- i 1)) (Seq_Str.nth l (- i 1))))) 1)))))
; end of input: unterminated text with at least one token is one more statement
(define-fun cliTail ((l Seq_Str)) Str (Out.str (cliPend l (Seq_Str.len l))))
(define-fun cliFinal ((o0 Out) (l Seq_Str)) CliSt
  (ite (> (Seq_Token.len (scanOf (cliTail l))) 0) (stepStmt (cliSt o0 l (Seq_Str.len l)) (cliTail l)) (cliSt o0 l (Seq_Str.len l))))
