; C08: every significant token of the source is accounted for in the returned tree.
; ntok(n) is the number of tokens the concrete syntax of the tree n consists of (the length of its re-print),
; written from the grammar: each node contributes its own keywords, operators, brackets and separators,
; its children contribute theirs.  slack(n) counts the commas the property statement allows to be absent
; from the tree: one directly before the closing parenthesis of a call with arguments, one directly before
; `by` in a summarize with aggregates.  A production that succeeds must have consumed at least ntok and at
; most ntok + slack tokens: a token that is consumed but not represented breaks the upper bound.
(module-uses consts spanof)
(define-fun v ((s Span)) Int (ite (spanValid s) 1 0))
(define-fun sepc ((k Int)) Int (ite (> k 1) (- k 1) 0))
(define-fun ownTok ((n Node)) Int
  (ite ((_ is mk_Ident) n) 1
  (ite ((_ is mk_QualifiedIdent) n) (sepc (Seq_Node.len (QualifiedIdent.Parts n)))
  (ite ((_ is mk_BasicLit) n) 1
  (ite ((_ is mk_UnaryExpr) n) 1
  (ite ((_ is mk_BinaryExpr) n) 1
  (ite ((_ is mk_InExpr) n) (+ 3 (sepc (Seq_Node.len (InExpr.Vals n))))
  (ite ((_ is mk_ParenExpr) n) 2
  (ite ((_ is mk_CallExpr) n) (+ 2 (sepc (Seq_Node.len (CallExpr.Args n))))
  (ite ((_ is mk_IndexExpr) n) 2
  (ite ((_ is mk_CountOperator) n) 2
  (ite ((_ is mk_WhereOperator) n) 2
  (ite ((_ is mk_SortOperator) n) (+ 3 (sepc (Seq_Node.len (SortOperator.Terms n))))
  (ite ((_ is mk_SortTerm) n) (+ (v (SortTerm.AscDescSpan n)) (* 2 (v (SortTerm.NullsSpan n))))
  (ite ((_ is mk_TakeOperator) n) 2
  (ite ((_ is mk_TopOperator) n) 3
  (ite ((_ is mk_ProjectOperator) n) (+ 2 (sepc (Seq_Node.len (ProjectOperator.Cols n))))
  (ite ((_ is mk_ProjectColumn) n) (v (ProjectColumn.Assign n))
  (ite ((_ is mk_ExtendOperator) n) (+ 2 (sepc (Seq_Node.len (ExtendOperator.Cols n))))
  (ite ((_ is mk_ExtendColumn) n) (v (ExtendColumn.Assign n))
  (ite ((_ is mk_SummarizeOperator) n) (+ 2 (sepc (Seq_Node.len (SummarizeOperator.Cols n))) (v (SummarizeOperator.By n)) (sepc (Seq_Node.len (SummarizeOperator.GroupBy n))))
  (ite ((_ is mk_SummarizeColumn) n) (v (SummarizeColumn.Assign n))
  (ite ((_ is mk_JoinOperator) n) (+ 5 (* 2 (v (JoinOperator.Kind n))) (sepc (Seq_Node.len (JoinOperator.Conditions n))))
  (ite ((_ is mk_AsOperator) n) 2
  (ite ((_ is mk_RenderOperator) n) (+ 2 (ite (spanValid (RenderOperator.With n)) (+ 3 (sepc (Seq_Node.len (RenderOperator.Props n)))) 0))
  (ite ((_ is mk_RenderProperty) n) 1
  (ite ((_ is mk_LetStatement) n) 2
  0)))))))))))))))))))))))))))
(define-fun ownSlack ((n Node)) Int
  (ite ((_ is mk_CallExpr) n) (ite (>= (Seq_Node.len (CallExpr.Args n)) 1) 1 0)
  (ite ((_ is mk_SummarizeOperator) n) (ite (and (spanValid (SummarizeOperator.By n)) (>= (Seq_Node.len (SummarizeOperator.Cols n)) 1)) 1 0)
  0)))
(declare-deep-sum ntok ntokL ownTok)
(declare-deep-sum slack slackL ownSlack)
; consumed c tokens for a tree with the given minimum and optional count
(define-fun within ((c Int) (lo Int) (sl Int)) Bool (and (<= lo c) (<= c (+ lo sl))))
; statements are separated by semicolon tokens: nsemiT(t, n) counts them among the first n tokens
(define-fun-rec nsemiT ((t Seq_Token) (n Int)) Int
  (ite (<= n 0) 0 (+ (nsemiT t (- n 1)) (ite (= (Token.Kind (Seq_Token.nth t (- n 1))) TokenSemi) 1 0))))
(lemma nsemiT-nosemi :induction b :lower a
  (forall ((t Seq_Token) (a Int) (b Int))
    (! (=> (and (<= 0 a) (<= a b) (forall ((j Int)) (! (=> (and (<= a j) (< j b)) (not (= (Token.Kind (Seq_Token.nth t j)) TokenSemi))) :pattern ((Seq_Token.nth t j)))))
           (= (nsemiT t b) (nsemiT t a)))
       :pattern ((nsemiT t b) (nsemiT t a)))))
