; line:column of a byte offset as error messages print it (C10): lines and columns start at 1, a newline starts
; the next line at column 1, a tab advances to the next multiple-of-8 stop, every other character (rune, not
; byte) advances the column by one.  Continuation form: LCl/LCc(t, i, line, col) = result after reading t from i.
(module-uses lex)
(define-fun lcStepL ((c Int) (line Int)) Int (ite (= c 10) (+ line 1) line))
(define-fun lcStepC ((c Int) (col Int)) Int (ite (= c 10) 1 (ite (= c 9) (+ col (- 8 (mod (- col 1) 8))) (+ col 1))))
(define-fun lcAdv ((t Str) (i Int)) Int (+ i (ite (>= (runeWidth t i) 1) (runeWidth t i) 1)))
(define-fun-rec LCl ((t Str) (i Int) (line Int) (col Int)) Int
  (ite (or (< i 0) (>= i (Str.len t))) line (LCl t (lcAdv t i) (lcStepL (runeAt t i) line) (lcStepC (runeAt t i) col))))
(define-fun-rec LCc ((t Str) (i Int) (line Int) (col Int)) Int
  (ite (or (< i 0) (>= i (Str.len t))) col (LCc t (lcAdv t i) (lcStepL (runeAt t i) line) (lcStepC (runeAt t i) col))))
