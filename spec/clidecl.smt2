; Names for the results of the library entry points the command-line tool calls (C16): each is justified by
; the determinism obligation of the function it names.
(module-uses consts)
(declare-fun compileSQL (Str) Str)      ; the SQL pql.Compile returns for a source
(declare-fun compileOK (Str) Bool)      ; whether pql.Compile succeeds on it
(declare-fun splitOf (Str) Seq_Str)     ; the pieces parser.SplitStatements returns
